"""C13 twin-run machinery: the same generated sequence of edits, checkpoints and git commands is executed in
lock-step in four scratch repositories ("twins"), each in its own isolated environment:

  W  wrapper mode   every git command goes through the git-ai proxy (GIT_AI=git <binary> …)
  H  hooks mode     `git-ai git-hooks ensure` (isolated HOME / GIT_CONFIG_GLOBAL, GIT_AI_GLOBAL_GIT_HOOKS=true),
                    then plain git: git-ai only sees what git's hooks tell it
  B  both           hooks installed *and* commands go through the proxy (double-execution check)
  T  trace          plain git, no git-ai; core.hooksPath points at scripts that log every hook invocation
                    (name, arguments, stdin, GIT_REFLOG_ACTION, in-progress markers): validates `fires`

All twins get the same clock per step (same author/committer dates) so that corresponding commits have the
*same* object ids in all four repositories; this is checked after every operation.

A scenario is a list of *macros* (["work", {...}], ["rebase", {...}], …) expanded deterministically from the
scenario seed into low-level steps; every git command of the compared alphabet is an *operation*: after it the
twins are observed (journal, notes of every reachable commit, `git-ai blame --json` of every file, side-state
files, pending working logs) and the git facts the Lean model needs are collected (from plain git and from the
trace twin).
"""
import json, os, stat

from vlib import e2e, sysrun as S
from vlib.props import c13_util as U

TOOL = S.TOOL
CLOCK0 = 1760000000          # must stay >= blame.rs OLDEST_AI_BLAME_DATE (2025-07-04), see e2e.Env

TRACE_HOOK = r'''#!/bin/sh
# logs one record per hook invocation (C13 `fires` validation)
gd="${GIT_DIR:-.git}"
n=$(basename "$0")
{
  printf 'HOOK %s\n' "$n"
  for a in "$@"; do printf 'ARG %s\n' "$a"; done
  printf 'ACT %s\n' "$GIT_REFLOG_ACTION"
  [ -d "$gd/rebase-merge" ] && printf 'CTX rebase-merge\n'
  [ -d "$gd/rebase-apply" ] && printf 'CTX rebase-apply\n'
  [ -f "$gd/CHERRY_PICK_HEAD" ] && printf 'CTX cherry-pick-head %s\n' "$(cat "$gd/CHERRY_PICK_HEAD")"
  [ -d "$gd/sequencer" ] && printf 'CTX sequencer\n'
  [ -f "$gd/MERGE_HEAD" ] && printf 'CTX merge-head\n'
  [ -f "$gd/SQUASH_MSG" ] && printf 'CTX squash-msg\n'
  [ -n "$GIT_DIR" ] && printf 'CTX git-dir-env\n'
  case "$n" in
    post-rewrite|reference-transaction|pre-push) while IFS= read -r line; do printf 'IN %s\n' "$line"; done ;;
  esac
  case "$n" in
    reference-transaction) [ -f "$gd/logs/HEAD" ] && printf 'SUBJ %s\n' "$(tail -n 1 "$gd/logs/HEAD" | cut -f2)" ;;
  esac
  printf 'END\n'
} >> "$C13_TRACE"
exit 0
'''
TRACED_HOOKS = ["pre-commit", "prepare-commit-msg", "commit-msg", "post-commit", "pre-rebase", "post-checkout",
                "post-merge", "pre-push", "post-rewrite", "reference-transaction", "pre-merge-commit", "post-applypatch",
                "pre-applypatch", "applypatch-msg"]

SEQ_EDITOR = '''import sys
mode, path = sys.argv[1], sys.argv[2]
lines = [l for l in open(path).read().split("\\n")]
picks = [i for i, l in enumerate(lines) if l.startswith("pick ")]
if mode == "reorder" and len(picks) >= 2:
    a, b = picks[0], picks[1]
    lines[a], lines[b] = lines[b], lines[a]
elif mode in ("squash", "fixup") and len(picks) >= 2:
    lines[picks[1]] = mode + lines[picks[1]][4:]
elif mode == "drop" and len(picks) >= 2:
    lines[picks[-1]] = "drop" + lines[picks[-1]][4:]
open(path, "w").write("\\n".join(lines))
'''


def parse_trace(path, start=0):
    """[{hook,args,act,ctx:[..],stdin:[..],subj}] from record index `start`"""
    out, cur = [], None
    try:
        data = open(path, errors="replace").read().split("\n")
    except FileNotFoundError:
        return []
    for line in data:
        if line.startswith("HOOK "):
            cur = {"hook": line[5:], "args": [], "act": "", "ctx": [], "stdin": [], "subj": ""}
        elif cur is None:
            continue
        elif line.startswith("ARG "):
            cur["args"].append(line[4:])
        elif line.startswith("ACT "):
            cur["act"] = line[4:]
        elif line.startswith("CTX "):
            cur["ctx"].append(line[4:])
        elif line.startswith("IN "):
            cur["stdin"].append(line[3:])
        elif line.startswith("SUBJ "):
            cur["subj"] = line[5:]
        elif line == "END":
            out.append(cur); cur = None
    return out[start:]


class Twin:
    def __init__(self, kind):
        self.kind = kind
        self.env = U.HooksEnv() if kind in ("H", "B") else e2e.Env()
        self.r = None
        self.trace_path = None
        self.ntrace = 0
        self.note_cache = {}
        self.last_err = ""

    def close(self):
        self.env.__exit__(None, None, None)

    def init(self):
        env = self.env
        if self.kind == "B":
            self.r = env.repo("r", both=True)
        else:
            self.r = env.repo("r")
        if self.kind == "T":
            hd = os.path.join(env.root, "trace-hooks")
            os.makedirs(hd)
            for h in TRACED_HOOKS:
                p = os.path.join(hd, h)
                open(p, "w").write(TRACE_HOOK)
                os.chmod(p, os.stat(p).st_mode | stat.S_IXUSR | stat.S_IXGRP | stat.S_IXOTH)
            self.trace_path = os.path.join(env.root, "trace.log")
            env.env["C13_TRACE"] = self.trace_path
            self.r.plain_git("config", "core.hooksPath", hd)
        open(os.path.join(env.root, "seq.py"), "w").write(SEQ_EDITOR)

    # ---------------------------------------------------------------- one low-level step
    def step(self, st):
        r = self.r
        k = st["k"]
        if k == "write":
            r.write(st["path"], st["content"]); return 0
        if k == "hcp":
            if self.kind == "T": return 0
            return r.human_checkpoint(st["files"])[0]
        if k == "aicp":
            if self.kind == "T": return 0
            return r.ai_checkpoint(st["session"], st["files"], tool=TOOL)[0]
        if k == "git":
            fn = r.plain_git if self.kind == "T" else r.git
            env = dict(st.get("env") or {})
            if st.get("seq"):
                env["GIT_SEQUENCE_EDITOR"] = f"python3 {os.path.join(self.env.root, 'seq.py')} {st['seq']}"
            rc, out, err = fn(*st["args"], env=env or None)
            self.last_err = err
            return rc
        if k == "plain":            # set-up plumbing that is not part of the compared alphabet
            args = ["-c", "core.hooksPath=/dev/null"] + list(st["args"])   # keep managed / tracing hooks out of it
            cwd = {"r": r.path, "root": self.env.root, "peer": os.path.join(self.env.root, "peer")}[st.get("cwd", "r")]
            rc, out, err = r.plain_git(*args, cwd=cwd)
            self.last_err = err
            return rc
        if k == "peer_write":
            p = os.path.join(self.env.root, "peer", st["path"])
            os.makedirs(os.path.dirname(p), exist_ok=True)
            open(p, "w").write(st["content"]); return 0
        raise ValueError(k)

    def new_trace(self):
        recs = parse_trace(self.trace_path, self.ntrace)
        self.ntrace += len(recs)
        return recs


# ------------------------------------------------------------------ observations of one twin
def observe(tw, blame=True):
    r = tw.r
    o = {"head": r.head()}
    rc, out, _ = r.plain_git("for-each-ref", "--format=%(refname) %(objectname)", "refs/heads/", "refs/stash")
    o["refs"] = sorted(l for l in out.split("\n") if l)
    rc, out, _ = r.plain_git("symbolic-ref", "-q", "HEAD")
    o["branch"] = out.strip()
    gd = os.path.join(r.path, ".git")
    o["in_progress"] = [n for n in ("rebase-merge", "rebase-apply", "CHERRY_PICK_HEAD", "sequencer", "MERGE_HEAD")
                        if os.path.exists(os.path.join(gd, n))]
    if tw.kind == "T":
        return o
    o["journal"] = U.rewrite_log(r)
    o["side"] = U.side_state(r)
    rc, out, _ = r.plain_git("rev-list", "--all")
    commits = [c for c in out.split("\n") if c]
    nl = r.notes_list()
    o["notes"] = {}
    for c in commits:
        blob = nl.get(c)
        if blob:
            if blob not in tw.note_cache:
                tw.note_cache[blob] = U.canon_note(r.note_text(c))
            o["notes"][c] = tw.note_cache[blob]
    if blame:
        o["blame"] = blame_all(r)
    o["wl"] = U.working_logs(r)
    return o


def blame_all(r):
    rc, out, _ = r.plain_git("ls-files", "-z")
    return {p: U.canon_blame(r.blame(p)) for p in [x for x in out.split("\0") if x]}


def lines_of(content):
    return content.split("\n")[:-1] if content.endswith("\n") else (content.split("\n") if content else [])


CONFLICT_MARKS = ("<<<<<<<", "=======", ">>>>>>>", "|||||||")
FILES = ["a.txt", "src/b.rs", "c.md"]
MACROS_AGREE = ["work", "amend", "rebase", "rebase-onto", "rebase-opts", "rebase-noop", "rebase-conflict-continue",
                "rebase-conflict-abort", "cherry-pick", "cherry-pick-n", "cherry-pick-conflict-continue", "reset",
                "stash", "squash", "switch", "pull-ff", "pull-rebase", "pull-rebase-noop"]
MACROS_FULL = MACROS_AGREE + ["rebase-i-reorder", "rebase-i-squash", "rebase-i-fixup", "rebase-i-drop", "rebase-autostash", "pull-rebase-autostash", "rebase-conflict-abort-reset",
                              "rebase-conflict-abort-commit",
                              "rebase-conflict-skip", "cherry-pick-range", "cherry-pick-range-conflict", "cherry-pick-conflict-abort", "cherry-pick-conflict-commit",
                              "reset-human", "reset-hard-head", "reset-forward", "stash-apply", "stash-human", "checkout-force",
                              "checkout-merge", "checkout-path", "revert"]
# `git rebase <options> main`: option spellings that take a value as a separate word / attached / with `=`
# (rebase_hooks.rs summarize_rebase_args has to skip the value to find the positionals)
REBASE_OPTS = [["-X", "theirs"], ["-X", "ours"], ["-Xtheirs"], ["--strategy-option", "theirs"], ["--strategy-option=ours"],
               ["-s", "ort"], ["--strategy", "ort"], ["--strategy=ort"], ["--empty", "drop"], ["--empty=keep"],
               ["-s", "ort", "-X", "patience"], ["--no-stat", "-X", "theirs"]]


class Scenario:
    """Runs macros on the twins; `self.ops` collects one record per compared operation."""

    def __init__(self, seed, kinds="WHBT"):
        self.seed = seed
        self.rng = S.Rng(seed ^ 0xC13)
        self.tw = {}
        for k in kinds:
            self.tw[k] = Twin(k)
        for t in self.tw.values():
            t.init()
        self.q = self.tw["W"].r            # the twin asked for git facts (plain git, read-only)
        self.n = 0
        self.uid = 0
        self.nbranch = 0
        self.ops = []
        self.steps = []
        self.sha_ix = {}
        self.unrec = False                 # human edits no checkpoint has seen
        self.remote = False
        self.stash_depth = 0
        self.pending = None                # facts of a rebase / cherry-pick that stopped
        self.heal_pending = False          # a rebase was aborted and no checkpoint has run since
        self.prev_obs = {k: observe(t) for k, t in self.tw.items()}

    def close(self):
        for t in self.tw.values():
            t.close()

    def finish(self):
        """blame of every file in the wrapper twin and the both-installed twin at the end of the scenario"""
        return {k: blame_all(self.tw[k].r) for k in ("W", "B") if k in self.tw}

    # ---------------------------------------------------------------- basics
    def ix(self, sha):
        if sha is None:
            return None
        if sha not in self.sha_ix:
            self.sha_ix[sha] = len(self.sha_ix) + 1
        return self.sha_ix[sha]

    def low(self, st):
        self.n += 1
        self.steps.append(st)
        rcs = {}
        for k, t in self.tw.items():
            t.env.clock = CLOCK0 + self.n * 100
            rcs[k] = t.step(st)
        return rcs

    def cp(self, st):
        """a checkpoint step. The first one after `rebase --abort` is a compared operation of its own: in hooks mode
        its entry point puts the hook entry points back that the aborted rebase left masked (Op.agentCheckpoint)"""
        if self.heal_pending and not self.in_progress():
            self.heal_pending = False
            return self.op("checkpoint", ["checkpoint", st["k"]] + list(st.get("files", [])),
                           lambda pre, rc, tr: {"k": "agentCheckpoint", "rebaseDir": False}, step=st)
        return self.low(st)

    def g(self, *args):
        rc, out, _ = self.q.plain_git(*args)
        return out.strip() if rc == 0 else None

    def head(self):
        return self.g("rev-parse", "--verify", "-q", "HEAD")

    def revlist(self, rng):
        out = self.g("rev-list", "--reverse", rng)
        return [x for x in (out or "").split("\n") if x]

    def dirty(self):
        # as status.rs:get_staged_and_unstaged_filenames sees it (untracked files count)
        rc, out, _ = self.q.plain_git("status", "--porcelain", "--untracked-files=normal")
        return bool(out.strip())

    def lines(self, p):
        try:
            return lines_of(self.q.read(p))
        except Exception:
            return []

    def fresh(self, who):
        self.uid += 1
        return f"L{self.uid} {who} " + self.rng.pick(["alpha", "beta();", "return x;", "}", "// note", "let y = 2;"])

    def edit(self, who, p, where="middle", n=None, record_human=False):
        """one insertion by `who` ('human' or a session) in a region of p; AI edits are bracketed by the agent's
        pre-edit (human) and post-edit (AI) checkpoints; human edits are not checkpointed unless record_human"""
        ls = self.lines(p)
        if who != "human":
            self.cp({"k": "hcp", "files": [p]})
        k = n or (1 + self.rng.below(2))
        new = [self.fresh(who) for _ in range(k)]
        L = len(ls)
        pos = 0 if where == "top" else (L if where == "bottom" else (max(1, min(L - 1, L // 2)) if L >= 2 else L))
        ls[pos:pos] = new
        self.low({"k": "write", "path": p, "content": "".join(l + "\n" for l in ls)})
        if who != "human":
            self.cp({"k": "aicp", "session": who, "files": [p]})
        elif record_human:
            self.cp({"k": "hcp", "files": [p]})
        else:
            self.unrec = True

    def replace_line(self, who, p, idx, text):
        ls = self.lines(p)
        if who != "human":
            self.cp({"k": "hcp", "files": [p]})
        ls[idx] = text
        self.low({"k": "write", "path": p, "content": "".join(l + "\n" for l in ls)})
        if who != "human":
            self.cp({"k": "aicp", "session": who, "files": [p]})
        else:
            self.unrec = True

    # ---------------------------------------------------------------- a compared operation
    def op(self, label, args, model, seq=None, env=None, step=None):
        """run one git command of the alphabet on every twin, observe, and record the facts.
        `model(pre, rc, trace)` returns the Lean op (dict) or None when the facts cannot be established."""
        pre = {"head": self.head(), "dirty": self.dirty(), "unrec": self.unrec,
               "wl": set(self.prev_obs["W"].get("wl", {}).keys()) if "W" in self.prev_obs else set(),
               "stash": self.g("rev-parse", "--verify", "-q", "refs/stash"),
               "stash_count": len([l for l in (self.g("stash", "list") or "").split("\n") if l])}
        resolved = {}
        for a in args:
            if not a.startswith("-"):
                v = self.g("rev-parse", "--verify", "-q", a + "^{commit}")
                if v:
                    resolved[a] = v
        st = dict(step) if step else {"k": "git", "args": list(args)}
        if seq:
            st["seq"] = seq
        if env:
            st["env"] = env
        rcs = self.low(st)
        # the both-installed twin is compared on journal and notes after every operation, on blame (the costly part of
        # an observation) once, at the end of the scenario (`finish`)
        obs = {k: observe(t, blame=(k != "B")) for k, t in self.tw.items()}
        trace = self.tw["T"].new_trace() if "T" in self.tw else []
        rc = rcs["W"]
        try:
            m = model(pre, rc, trace) if model else None
        except Exception as e:      # facts could not be established: recorded, the op is not sent to the model
            m = {"error": repr(e)}
        for r in trace:
            if r["hook"] == "pre-rebase":
                for a in r["args"]:
                    if a not in resolved:
                        resolved[a] = self.g("rev-parse", "--verify", "-q", a + "^{commit}")
        rec = {"label": label, "args": list(args), "rcs": rcs, "obs": obs, "prev": self.prev_obs, "trace": trace, "model": m,
               "resolved": resolved,
               "pre": {k: (sorted(v) if isinstance(v, set) else v) for k, v in pre.items()}}
        self.ops.append(rec)
        self.prev_obs = obs
        return rc

    # ---------------------------------------------------------------- model ops from git facts
    def m_commit(self, pre, rc, trace):
        h = self.head()
        if rc != 0 or h == pre["head"]:
            return {"k": "commitFails", "head": self.ix(pre["head"]), "unrecorded": pre["unrec"]}
        return {"k": "commit", "parent": self.ix(pre["head"]), "new": self.ix(h), "unrecorded": pre["unrec"]}

    def m_amend(self, pre, rc, trace):
        h = self.head()
        if rc != 0 or h == pre["head"]:
            return {"k": "commitFails", "head": self.ix(pre["head"]), "unrecorded": pre["unrec"]}
        return {"k": "amend", "old": self.ix(pre["head"]), "new": self.ix(h),
                "oldParent": self.ix(self.g("rev-parse", "--verify", "-q", pre["head"] + "^")), "unrecorded": pre["unrec"]}

    def inner_of(self, trace, skip_first_head=False):
        """hooks git ran while .git/rebase-merge existed, in the model's vocabulary (`skip_first_head`: the
        transaction that detaches HEAD onto the new base belongs to the start of the rebase, not to the picks)"""
        out = []
        for r in trace:
            if "rebase-merge" not in r["ctx"] and "rebase-apply" not in r["ctx"]:
                continue
            h = r["hook"]
            if h in ("pre-commit", "prepare-commit-msg", "commit-msg", "post-commit"):
                out.append([h])
            elif h == "post-rewrite" and r["args"][:1] == ["amend"]:
                out.append(["post-rewrite-amend"] + [[self.ix(x.split()[0]), self.ix(x.split()[1])] for x in r["stdin"]])
            elif h == "reference-transaction" and r["args"][:1] == ["committed"]:
                for line in r["stdin"]:
                    f = line.split()
                    if len(f) >= 3 and f[2] == "HEAD" and set(f[0]) != {"0"} and set(f[1]) != {"0"}:
                        if skip_first_head:
                            skip_first_head = False
                        else:
                            out.append(["ref-head", self.ix(f[0]), self.ix(f[1])])
        return out

    def rebase_facts(self, start, trace, pull=False, first=True):
        """RebaseFacts after the rebase finished; `start` = {orig, onto, upstreamArg, interactive, wl}"""
        nh = self.head()
        orig, onto = start["orig"], start["onto"]
        mb = self.g("merge-base", orig, nh)
        chain = self.revlist(f"{mb}..{orig}") if mb else []
        anc = self.q.plain_git("merge-base", "--is-ancestor", onto, nh)[0] == 0
        new_chain = self.revlist(f"{onto if anc else mb}..{nh}") if chain else []
        pairs = []
        for r in trace:
            if r["hook"] == "post-rewrite" and r["args"][:1] == ["rebase"]:
                pairs = [[self.ix(x.split()[0]), self.ix(x.split()[1])] for x in r["stdin"] if len(x.split()) >= 2]
        return {"orig": self.ix(orig), "onto": self.ix(onto), "upstreamArg": self.ix(start["upstreamArg"]),
                "branchArg": self.ix(start.get("branchArg")),
                "interactive": start["interactive"], "chain": [self.ix(c) for c in chain], "newChain": [self.ix(c) for c in new_chain],
                "pairs": pairs, "newHead": self.ix(nh), "inner": self.inner_of(trace, first), "wlAtOrig": start["wl"],
                "autostash": bool(start.get("autostash"))}

    def in_progress(self):
        gd = os.path.join(self.q.path, ".git")
        return [n for n in ("rebase-merge", "rebase-apply", "CHERRY_PICK_HEAD", "sequencer") if os.path.exists(os.path.join(gd, n))]

    def m_rebase(self, start, pull=False):
        def f(pre, rc, trace):
            if self.in_progress():
                self.pending = ("rebase", start)
                return dict({"k": "rebaseStop", "orig": self.ix(start["orig"]), "onto": self.ix(start["onto"]),
                             "upstreamArg": self.ix(start["upstreamArg"]), "branchArg": self.ix(start.get("branchArg")),
                             "interactive": start["interactive"], "chain": [],
                             "newChain": [], "pairs": [], "newHead": self.ix(start["orig"]), "inner": self.inner_of(trace, True),
                             "wlAtOrig": start["wl"], "autostash": bool(start.get("autostash"))})
            if rc != 0:
                return None
            r = self.rebase_facts(start, trace, pull)
            r["k"] = "pullRebase" if pull else "rebase"
            return r
        return f

    def m_rebase_continue(self, pre, rc, trace):
        kind, start = self.pending
        if self.in_progress():
            return None
        self.pending = None
        if rc != 0:
            return None
        r = self.rebase_facts(start, trace, first=False)
        r["k"] = "rebaseContinue"
        return r

    def m_rebase_abort(self, pre, rc, trace):
        kind, start = self.pending
        self.pending = None
        self.heal_pending = True
        return {"k": "rebaseAbort", "orig": self.ix(start["orig"]), "onto": self.ix(start["onto"]),
                "upstreamArg": self.ix(start["upstreamArg"]), "interactive": start["interactive"], "chain": [], "newChain": [],
                "pairs": [], "newHead": self.ix(start["orig"]), "inner": [], "wlAtOrig": start["wl"]}

    def m_cherry_pick(self, srcs, nocommit=False):
        def f(pre, rc, trace):
            h0, h1 = pre["head"], self.head()
            if nocommit:
                return {"k": "cherryPickNoCommit", "head": self.ix(h0), "src": self.ix(srcs[0])}
            news = self.revlist(f"{h0}..{h1}")
            if self.in_progress():
                self.pending = ("cherry-pick", {"head": h0, "srcs": srcs, "done": news})
                return {"k": "cherryPickStop", "head": self.ix(h0), "srcs": [self.ix(s) for s in srcs],
                        "done": [[self.ix(s), self.ix(n)] for s, n in zip(srcs, news)]}
            if rc != 0 or len(news) != len(srcs):
                return None
            return {"k": "cherryPick", "head": self.ix(h0), "pairs": [[self.ix(s), self.ix(n)] for s, n in zip(srcs, news)]}
        return f

    def m_cherry_pick_continue(self, pre, rc, trace):
        kind, p = self.pending
        if self.in_progress() or rc != 0:
            return None
        self.pending = None
        news = self.revlist(f"{p['head']}..{self.head()}")
        nd = len(p["done"])
        if len(news) != len(p["srcs"]):
            return None
        pairs = [[self.ix(s), self.ix(n)] for s, n in zip(p["srcs"], news)]
        return {"k": "cherryPickContinue", "head": self.ix(p["head"]), "srcs": [self.ix(s) for s in p["srcs"]],
                "done": pairs[:nd], "res": pairs[nd], "rest": pairs[nd + 1:], "multi": len(p["srcs"]) > 1}

    def m_cherry_pick_abort(self, pre, rc, trace):
        kind, p = self.pending
        self.pending = None
        return {"k": "cherryPickAbort", "head": self.ix(p["head"])}

    def m_reset(self, kind):
        def f(pre, rc, trace):
            if rc != 0:
                return None
            o, n = pre["head"], self.head()
            back = self.q.plain_git("merge-base", "--is-ancestor", n, o)[0] == 0
            return {"k": "reset", "kind": kind, "old": self.ix(o), "new": self.ix(n), "backward": back,
                    "dirtyAfter": self.dirty(), "unrecorded": pre["unrec"]}
        return f

    def m_stash_push(self, pre, rc, trace):
        s = self.g("rev-parse", "--verify", "-q", "refs/stash")
        if rc != 0 or s == pre["stash"]:
            return None
        return {"k": "stashPush", "head": self.ix(pre["head"]), "stash": self.ix(s), "count": pre["stash_count"],
                "prevStash": self.ix(pre["stash"]), "unrecorded": pre["unrec"]}

    def m_stash_pop(self, pre, rc, trace):
        if rc != 0:
            return None
        return {"k": "stashPop", "head": self.ix(pre["head"]), "stash": self.ix(pre["stash"]), "count": pre["stash_count"],
                "next": self.ix(self.g("rev-parse", "--verify", "-q", "refs/stash")), "dirtyAfter": self.dirty()}

    def m_stash_apply(self, pre, rc, trace):
        if rc != 0:
            return None
        return {"k": "stashApply", "head": self.ix(pre["head"]), "stash": self.ix(pre["stash"])}

    def m_checkout(self, sw, mode, create):
        def f(pre, rc, trace):
            if rc != 0:
                return None
            return {"k": "checkout", "switch": sw, "old": self.ix(pre["head"]), "new": self.ix(self.head()), "mode": mode,
                    "dirty": pre["dirty"], "create": create, "wl": pre["head"] in pre["wl"]}
        return f

    # ---------------------------------------------------------------- command helpers
    def commit(self, msg, label="commit", extra=()):
        self.low({"k": "git", "args": ["add", "-A"]})
        rc = self.op(label, ["commit", "-q", "-m", msg] + list(extra), self.m_amend if "--amend" in extra else self.m_commit)
        self.unrec = False        # both modes took the pre-commit checkpoint
        return rc

    def switch(self, branch, create=False, cmd="switch", mode="plain", label=None):
        args = [cmd, "-q"]
        if mode == "force":
            args.append("-f")
        if mode == "merge":
            args.append("-m")
        if create:
            args.append("-c" if cmd == "switch" else "-b")
        args.append(branch)
        lab = label or {"plain": ("switch-c" if create else cmd), "force": "checkout-force", "merge": "checkout-merge"}[mode]
        return self.op(lab, args, self.m_checkout(cmd == "switch", mode, create))

    def new_branch(self):
        self.nbranch += 1
        return f"f{self.nbranch}"

    def who(self):
        return self.rng.pick(["s1", "s2", "s1", "human"])

    def work_commit(self, msg, files=None, where=None, n_edits=None, ai=False):
        for _ in range(n_edits or (1 + self.rng.below(2))):
            w = self.rng.pick(["s1", "s2"]) if ai else self.who()
            self.edit(w, self.rng.pick(files or FILES), where or self.rng.pick(["top", "middle", "bottom"]))
        return self.commit(msg)

    def feature(self, n, base_files=None, upstream="other"):
        """branch fK with n commits touching distinct files (so they can be reordered), one upstream commit on main"""
        br = self.new_branch()
        self.switch(br, create=True)
        for i in range(n):
            f = FILES[i % len(FILES)]
            self.edit(self.rng.pick(["s1", "s2"]), f, "middle")
            if self.rng.chance(1, 2):
                self.edit("human", f, "bottom", record_human=True)
            self.commit(f"{br} {i}")
        self.switch("main")
        if upstream == "other":
            self.edit("human", "upstream.txt", "bottom", record_human=True)
        elif upstream == "above":
            self.edit(self.rng.pick(["human", "s2"]), FILES[0], "top", record_human=True)
        if upstream != "none":
            self.commit(f"up for {br}")
        return br

    def conflict_branch(self):
        """branch whose first commit conflicts with a commit made on main afterwards; second commit is clean"""
        br = self.new_branch()
        p = FILES[0]
        self.switch(br, create=True)
        idx = min(3, max(0, len(self.lines(p)) - 1))
        self.replace_line(self.rng.pick(["s1", "s2"]), p, idx, self.fresh("feat-conflict"))
        self.commit(f"{br} conflict")
        self.edit("s1", FILES[1], "bottom")
        self.commit(f"{br} tail")
        self.switch("main")
        self.replace_line("human", p, idx, self.fresh("up-conflict"))
        self.cp({"k": "hcp", "files": [p]}); self.unrec = False
        self.commit(f"up conflict for {br}")
        return br, p

    def resolve(self, p):
        ls = [l for l in self.lines(p) if not l.startswith(CONFLICT_MARKS)]
        who = self.rng.pick(["human", "s2"])
        if who != "human":
            self.cp({"k": "hcp", "files": [p]})
        ls.insert(len(ls) // 2, self.fresh(who))
        self.low({"k": "write", "path": p, "content": "".join(l + "\n" for l in ls)})
        if who != "human":
            self.cp({"k": "aicp", "session": who, "files": [p]})
        else:
            self.cp({"k": "hcp", "files": [p]})
        self.low({"k": "git", "args": ["add", "-A"]})

    def ensure_remote(self):
        if self.remote:
            return
        self.remote = True
        for st in ([{"k": "plain", "args": ["init", "-q", "--bare", "-b", "main", "up.git"], "cwd": "root"},
                    {"k": "plain", "args": ["remote", "add", "origin", "../up.git"]},
                    {"k": "plain", "args": ["push", "-q", "-u", "origin", "main"]},
                    {"k": "plain", "args": ["clone", "-q", "up.git", "peer"], "cwd": "root"}]):
            self.low(st)

    def peer_commit(self):
        self.uid += 1
        self.low({"k": "plain", "args": ["pull", "-q", "--ff-only"], "cwd": "peer"})
        self.low({"k": "peer_write", "path": f"peer{self.uid}.txt", "content": f"peer {self.uid}\n"})
        self.low({"k": "plain", "args": ["add", "-A"], "cwd": "peer"})
        self.low({"k": "plain", "args": ["commit", "-q", "-m", f"peer {self.uid}"], "cwd": "peer"})
        self.low({"k": "plain", "args": ["push", "-q", "origin", "main"], "cwd": "peer"})

    # ---------------------------------------------------------------- macros
    def run_macro(self, name, prm=None):
        prm = prm or {}
        rng = self.rng
        if name == "base":
            for p in FILES[:2 + rng.below(2)]:
                self.low({"k": "write", "path": p, "content": "".join(self.fresh("base") + "\n" for _ in range(8))})
            self.commit("base")
        elif name == "work":
            self.work_commit("work")
        elif name == "amend":
            self.work_commit("to amend", ai=True)
            for _ in range(1 + rng.below(2)):
                self.edit(self.who(), rng.pick(FILES), rng.pick(["top", "middle", "bottom"]))
            self.commit("amended", label="amend", extra=["--amend"])
        elif name in ("rebase", "rebase-onto", "rebase-opts", "rebase-autostash") or name.startswith("rebase-i-"):
            n = 3 if name.startswith("rebase-i-") else 2 + rng.below(2)
            br = self.feature(n, upstream=prm.get("upstream") or rng.pick(["other", "above"]))
            self.switch(br)
            if name == "rebase-autostash":
                self.edit("s1", FILES[0], "bottom")             # uncommitted AI work carried over the rebase
            orig, main = self.head(), self.g("rev-parse", "main")
            start = {"orig": orig, "onto": main, "upstreamArg": main, "interactive": name.startswith("rebase-i-"),
                     "wl": orig in observe(self.tw["W"], blame=False).get("wl", {})}
            if name == "rebase-autostash":
                start["autostash"] = True
                self.op("rebase-autostash", ["rebase", "--autostash", "main"], self.m_rebase(start))
                self.commit("after autostash rebase")
            elif name == "rebase":
                self.op("rebase", ["rebase", "main"], self.m_rebase(start))
            elif name == "rebase-opts":
                opts = prm.get("opts") or rng.pick(REBASE_OPTS)
                self.op("rebase-opts", ["rebase"] + list(opts) + ["main"], self.m_rebase(start))
            elif name == "rebase-onto":
                up = self.g("rev-parse", f"{br}~{n}")
                start["upstreamArg"] = up
                start["branchArg"] = orig
                self.op("rebase-onto", ["rebase", "--onto", "main", f"{br}~{n}", br], self.m_rebase(start))
            else:
                self.op(name, ["rebase", "-i", "main"], self.m_rebase(start), seq=name.split("-")[-1])
            if self.pending:
                self.op("rebase-abort", ["rebase", "--abort"], self.m_rebase_abort)
            self.work_commit("after rebase", ai=True)
            self.switch("main")
        elif name == "rebase-noop":
            # every commit of the branch is already upstream (same patch): git drops it, the todo is empty, no post-rewrite
            br = self.new_branch()
            self.switch(br, create=True)
            self.edit(rng.pick(["s1", "s2"]), FILES[0], "middle")
            self.commit(f"{br} dup")
            src = self.head()
            self.switch("main")
            self.edit("human", "upstream.txt", "bottom", record_human=True)
            self.commit(f"up for {br}")
            self.low({"k": "plain", "args": ["cherry-pick", src]})       # set-up plumbing: neither mode sees it
            self.switch(br)
            orig, main = self.head(), self.g("rev-parse", "main")
            start = {"orig": orig, "onto": main, "upstreamArg": main, "interactive": False,
                     "wl": orig in self.prev_obs["W"].get("wl", {})}
            self.op("rebase-noop", ["rebase", "main"], self.m_rebase(start))
            if self.pending:
                self.op("rebase-abort", ["rebase", "--abort"], self.m_rebase_abort)
            follow = prm.get("then") or rng.pick(["commit", "reset"])
            if follow == "reset":
                self.op("reset-soft", ["reset", "-q", "--soft", "HEAD~1"], self.m_reset("soft"))
            self.work_commit("after noop rebase", ai=True)
            self.switch("main")
        elif name.startswith("rebase-conflict-"):
            br, p = self.conflict_branch()
            self.switch(br)
            orig, main = self.head(), self.g("rev-parse", "main")
            start = {"orig": orig, "onto": main, "upstreamArg": main, "interactive": False,
                     "wl": orig in self.prev_obs["W"].get("wl", {})}
            self.op("rebase-conflict-stop", ["rebase", "main"], self.m_rebase(start))
            if self.pending:
                act = name.split("-")[2]
                if act == "continue":
                    self.resolve(p)
                    self.op("rebase-continue", ["rebase", "--continue"], self.m_rebase_continue)
                elif act == "skip":
                    self.op("rebase-skip", ["rebase", "--skip"], self.m_rebase_continue)
                else:
                    self.op("rebase-abort", ["rebase", "--abort"], self.m_rebase_abort)
                if self.pending:
                    self.op("rebase-abort", ["rebase", "--abort"], self.m_rebase_abort)
            if name == "rebase-conflict-abort-commit":
                # a commit made by hand right after the abort: no checkpoint, checkout or rewrite has run in between
                self.edit("human", FILES[1], "bottom")
                self.commit("by hand after abort")
            if name == "rebase-conflict-abort-reset":
                # the hook entry points are still renamed away: an operation other than commit / checkout goes unseen
                self.op("reset-soft", ["reset", "-q", "--soft", "HEAD~1"], self.m_reset("soft"))
                self.commit("after reset")
            self.work_commit("after rebase", ai=True)
            self.work_commit("after rebase 2", ai=True)
            self.switch("main")
        elif name in ("cherry-pick", "cherry-pick-range", "cherry-pick-n"):
            n = 1 + rng.below(2) if name != "cherry-pick-range" else 2 + rng.below(2)
            br = self.feature(n, upstream=prm.get("upstream") or rng.pick(["other", "above", "none"]))
            if name == "cherry-pick":
                src = self.g("rev-parse", f"{br}~{n - 1}")
                self.op("cherry-pick", ["cherry-pick", src], self.m_cherry_pick([src]))
            elif name == "cherry-pick-n":
                src = self.g("rev-parse", f"{br}~{n - 1}")
                self.op("cherry-pick-n", ["cherry-pick", "-n", src], self.m_cherry_pick([src], nocommit=True))
                self.commit("picked -n")
            else:
                srcs = self.revlist(f"{br}~{n}..{br}")
                self.op("cherry-pick-range", ["cherry-pick", f"{br}~{n}..{br}"], self.m_cherry_pick(srcs))
            if self.pending:
                self.op("cherry-pick-abort", ["cherry-pick", "--abort"], self.m_cherry_pick_abort)
            self.work_commit("after cherry-pick", ai=True)
        elif name.startswith("cherry-pick-conflict-") or name == "cherry-pick-range-conflict":
            br, p = self.conflict_branch()
            if name == "cherry-pick-range-conflict":
                srcs = self.revlist(f"{br}~2..{br}")
                self.op("cherry-pick-range-conflict-stop", ["cherry-pick", f"{br}~2..{br}"], self.m_cherry_pick(srcs))
                act = "continue"
            else:
                src = self.g("rev-parse", f"{br}~1")
                self.op("cherry-pick-conflict-stop", ["cherry-pick", src], self.m_cherry_pick([src]))
                act = name.split("-")[-1]
            if self.pending:
                if act == "commit":
                    # the conflicted pick is concluded with `git commit` instead of `cherry-pick --continue`
                    # (outside the modelled alphabet: no Lean op; compared on the implementation only)
                    self.resolve(p)
                    self.op("cherry-pick-commit", ["commit", "-q", "--no-edit"], None, env={"GIT_EDITOR": "true"})
                    self.pending = None
                elif act == "continue":
                    self.resolve(p)
                    lab = "cherry-pick-range-continue" if name == "cherry-pick-range-conflict" else "cherry-pick-continue"
                    self.op(lab, ["cherry-pick", "--continue"], self.m_cherry_pick_continue, env={"GIT_EDITOR": "true"})
                else:
                    self.op("cherry-pick-abort", ["cherry-pick", "--abort"], self.m_cherry_pick_abort)
                if self.pending:
                    self.op("cherry-pick-abort", ["cherry-pick", "--abort"], self.m_cherry_pick_abort)
            self.work_commit("after cherry-pick", ai=True)
        elif name in ("reset", "reset-human", "reset-hard-head", "reset-forward"):
            k = 1 + rng.below(2)
            for i in range(k + 1):
                self.work_commit(f"r{i}", ai=True)
            if name == "reset-hard-head":
                self.edit("s1", rng.pick(FILES), "top")
                self.op("reset-hard-head", ["reset", "-q", "--hard", "HEAD"], self.m_reset("hard"))
            elif name == "reset-forward":
                self.op("reset-hard", ["reset", "-q", "--hard", f"HEAD~{k}"], self.m_reset("hard"))
                self.edit("s1", rng.pick(FILES), "top")
                kind = rng.pick(["soft", "mixed"])
                self.op("reset-forward", ["reset", "-q", f"--{kind}", "ORIG_HEAD"], self.m_reset(kind))
            else:
                kind = prm.get("kind") or rng.pick(["soft", "mixed", "hard"])
                if name == "reset-human":
                    # a person rewrites a pending AI line and nobody checkpoints before the reset
                    p = rng.pick(FILES[:2])
                    self.edit("s1", p, "top", n=2)
                    self.replace_line("human", p, 0, self.lines(p)[0] + " humanised")
                    self.edit("human", p, "bottom")
                elif rng.chance(1, 2) and kind != "hard":
                    self.edit("s1", rng.pick(FILES), "top")           # pending AI work on top
                self.op(f"reset-{kind}" + ("+unrecorded" if self.unrec else ""), ["reset", "-q", f"--{kind}", f"HEAD~{k}"], self.m_reset(kind))
            self.commit("after reset")
            self.work_commit("after reset 2", ai=True)
        elif name in ("stash", "stash-apply", "stash-human"):
            self.edit("s1", FILES[0], "middle")
            self.edit("s2", FILES[1], "bottom")
            if name == "stash-human":
                ls = self.lines(FILES[0])
                self.replace_line("human", FILES[0], len(ls) // 2, ls[len(ls) // 2] + " humanised")
            elif rng.chance(1, 2):
                self.edit("human", FILES[0], "bottom", record_human=True)
            self.op("stash-push" + ("+unrecorded" if self.unrec else ""), ["stash"], self.m_stash_push)
            self.unrec = False
            up = prm.get("upstream", rng.pick([True, False]))
            if up:
                self.edit("human", "upstream.txt", "bottom", record_human=True)
                self.commit("up while stashed")
            if name == "stash-apply":
                self.op("stash-apply", ["stash", "apply"], self.m_stash_apply)
            else:
                self.op("stash-pop", ["stash", "pop"], self.m_stash_pop)
            self.commit("after unstash")
        elif name == "squash":
            br = self.feature(2 + rng.below(2), upstream=rng.pick(["other", "above"]))
            src = self.g("rev-parse", br)
            self.op("merge-squash", ["merge", "--squash", br],
                    lambda pre, rc, tr: {"k": "mergeSquash", "src": self.ix(src), "base": self.ix(pre["head"])} if rc == 0 else None)
            self.low({"k": "git", "args": ["add", "-A"]})
            self.op("commit", ["commit", "-q", "-m", "squashed"], self.m_commit)
        elif name in ("switch", "checkout-force", "checkout-merge", "checkout-path"):
            br = self.new_branch()
            self.low({"k": "plain", "args": ["branch", br]})
            self.switch(br)
            self.edit("human", "other.txt", "bottom", record_human=True)
            self.commit(f"{br} work")
            self.switch("main")
            self.edit("s1", FILES[0], "middle")
            if rng.chance(1, 2):
                self.edit("human", FILES[0], "bottom", record_human=True)
            if name == "switch":
                how = prm.get("how") or rng.pick(["switch", "checkout", "switch-c"])
                if how == "switch-c":
                    self.switch(self.new_branch(), create=True)
                else:
                    self.switch(br, cmd=how)
            elif name == "checkout-force":
                self.switch(br, cmd="checkout", mode="force")
            elif name == "checkout-merge":
                self.switch(br, cmd="checkout", mode="merge")
            else:
                self.op("checkout-path", ["checkout", "--", FILES[0]],
                        lambda pre, rc, tr: {"k": "checkoutPath", "head": self.ix(pre["head"])} if rc == 0 else None)
            self.edit("s2", FILES[1], "bottom")
            self.commit("carried")
            self.switch("main")
        elif name in ("pull-ff", "pull-rebase", "pull-rebase-noop", "pull-rebase-autostash"):
            if self.g("symbolic-ref", "-q", "--short", "HEAD") != "main":
                self.switch("main")
            self.ensure_remote()
            self.low({"k": "plain", "args": ["push", "-q", "origin", "main"]})
            if name == "pull-rebase-noop":
                # the local commit lands upstream as the identical patch (plus one more commit): the pull skips it,
                # the todo is empty and git runs no post-rewrite
                p = FILES[0]
                self.edit(rng.pick(["s1", "s2"]), p, "middle")
                self.commit("local dup")
                self.low({"k": "plain", "args": ["pull", "-q", "--ff-only"], "cwd": "peer"})
                self.low({"k": "peer_write", "path": p, "content": self.q.read(p)})
                self.low({"k": "plain", "args": ["add", "-A"], "cwd": "peer"})
                self.low({"k": "plain", "args": ["commit", "-q", "-m", "peer dup"], "cwd": "peer"})
                self.peer_commit()
                orig = self.head()
                def mk0(pre, rc, tr):
                    up = self.g("rev-parse", "@{upstream}")
                    start = {"orig": orig, "onto": up, "upstreamArg": up, "interactive": False, "wl": orig in pre["wl"]}
                    return self.m_rebase(start, pull=True)(pre, rc, tr)
                self.op("pull-rebase-noop", ["pull", "-q", "--rebase"], mk0)
                if (prm.get("then") or rng.pick(["agent", "reset"])) == "reset":
                    # an operation that needs the reference-transaction hook, before any checkpoint / checkout
                    self.op("reset-soft", ["reset", "-q", "--soft", "HEAD~1"], self.m_reset("soft"))
                    self.commit("after reset")
                self.work_commit("after noop pull", ai=True)
                return
            self.peer_commit()
            if name == "pull-ff":
                self.edit("s1", FILES[0], "middle")       # pending AI work carried over the fast-forward
                self.op("pull-ff", ["pull", "-q", "--ff-only"],
                        lambda pre, rc, tr: {"k": "pullFF", "old": self.ix(pre["head"]), "new": self.ix(self.head()),
                                             "wl": pre["head"] in pre["wl"]} if rc == 0 else None)
                self.commit("after pull")
            else:
                self.work_commit("local 1", ai=True)
                self.work_commit("local 2", ai=True)
                orig = self.head()
                auto = name == "pull-rebase-autostash"
                if auto:
                    self.edit("s2", FILES[0], "bottom")         # uncommitted AI work carried over the pull
                wl = orig in observe(self.tw["W"], blame=False).get("wl", {})
                def mk(pre, rc, tr):
                    up = self.g("rev-parse", "@{upstream}")
                    start = {"orig": orig, "onto": up, "upstreamArg": up, "interactive": False, "wl": wl, "autostash": auto}
                    return self.m_rebase(start, pull=True)(pre, rc, tr)
                if auto:
                    self.op("pull-rebase-autostash", ["pull", "-q", "--rebase", "--autostash"], mk)
                    self.commit("after pull autostash")
                else:
                    self.op("pull-rebase", ["pull", "-q", "--rebase"], mk)
                self.work_commit("after pull", ai=True)
        elif name == "revert":
            self.work_commit("to revert", ai=True)
            self.op("revert", ["revert", "--no-edit", "HEAD"], None)
            self.work_commit("after revert", ai=True)
        else:
            raise ValueError(f"unknown macro {name}")
