"""C13 helpers: a hooks-mode twin of `e2e.Env` / `e2e.Repo` (mirrors what tests/repos/test_repo.rs does for
GIT_AI_TEST_GIT_MODE=hooks: `git-ai git-hooks ensure` in an isolated HOME / GIT_CONFIG_GLOBAL with
GIT_AI_GLOBAL_GIT_HOOKS=true, then *plain git* as the command), canonicalisation of the rewrite journal,
of authorship notes and of `git-ai blame --json`, and the mirror of the Lean model's op encoding."""
import json, os

from vlib import e2e

ZERO = "0" * 40


class HooksEnv(e2e.Env):
    """Isolated environment in which git-ai is installed as repository git hooks (no wrapper)."""

    def __init__(self, **kw):
        extra = dict(kw.pop("extra_env", None) or {})
        extra["GIT_AI_GLOBAL_GIT_HOOKS"] = "true"
        super().__init__(extra_env=extra, **kw)
        # test_repo.rs: sync_test_home_config_for_hooks — the hook processes also read HOME/.git-ai/config.json
        patch = json.loads(self.env["GIT_AI_TEST_CONFIG_PATCH"])
        cfg = {"exclude_prompts_in_repositories": patch.get("exclude_prompts_in_repositories", []),
               "telemetry_oss": "off", "disable_version_checks": True, "disable_auto_updates": True}
        if patch.get("prompt_storage"):
            cfg["prompt_storage"] = patch["prompt_storage"]
        d = os.path.join(self.home, ".git-ai")
        os.makedirs(d, exist_ok=True)
        with open(os.path.join(d, "config.json"), "w") as f:
            json.dump(cfg, f)

    def repo(self, name, init=True, bare=False, both=False):
        p = os.path.join(self.root, name)
        os.makedirs(p, exist_ok=True)
        r = HooksRepo(self, p, both=both)
        if init:
            args = ["init", "-q", "-b", "main"] + (["--bare"] if bare else [])
            r.plain_git(*args)
            r.ensure_hooks()
        return r


class HooksRepo(e2e.Repo):
    """`git(...)` is the system git; git-ai only sees what git's hooks tell it. With both=True the command
    goes through the proxy although the managed hooks are installed (the "both installed" configuration)."""

    def __init__(self, env, path, both=False):
        super().__init__(env, path)
        self.both = both

    def ensure_hooks(self):
        rc, out, err = self.ai("git-hooks", "ensure")
        if rc != 0:
            raise RuntimeError(f"git-ai git-hooks ensure failed rc={rc}: {out} {err}")
        return out

    def git(self, *args, env=None, cwd=None, input=None, check=False):
        if self.both:
            return super().git(*args, env=env, cwd=cwd, input=input, check=check)
        return self.plain_git(*args, env=env, cwd=cwd, input=input, check=check)


def rewrite_log(repo):
    """events of .git/ai/rewrite_log, oldest first (the file is newest first)"""
    p = os.path.join(repo.ai_dir(), "rewrite_log")
    out = []
    try:
        for line in open(p):
            line = line.strip()
            if line:
                try:
                    out.append(json.loads(line))
                except Exception:
                    out.append({"unparsable": line[:80]})
    except FileNotFoundError:
        pass
    out.reverse()
    return out


SIDE_FILES = ["pull_hook_state.json", "rebase_hook_mask_state.json", "stash_ref_tx_state.json",
              "cherry_pick_batch_state.json", "cherry_pick_hook_state"]


def side_state(repo):
    """names of the hook-mode side-state files that currently exist"""
    d = repo.ai_dir()
    return [f for f in SIDE_FILES if os.path.exists(os.path.join(d, f))]
