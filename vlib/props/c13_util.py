"""C13 helpers: a hooks-mode twin of `e2e.Env` / `e2e.Repo` (mirrors what tests/repos/test_repo.rs does for
GIT_AI_TEST_GIT_MODE=hooks: `git-ai git-hooks ensure` in an isolated HOME / GIT_CONFIG_GLOBAL with
GIT_AI_GLOBAL_GIT_HOOKS=true, then *plain git* as the command), canonicalisation of the rewrite journal,
of authorship notes and of `git-ai blame --json`, and the mirror of the Lean model's op encoding."""
import json, os

from vlib import e2e

ZERO = "0" * 40


class HooksEnv(e2e.Env):
    """Isolated environment in which git-ai is installed as repository git hooks (no wrapper)."""

    def __init__(self, **kw):
        extra = dict(kw.pop("extra_env", None) or {})
        extra["GIT_AI_GLOBAL_GIT_HOOKS"] = "true"
        super().__init__(extra_env=extra, **kw)
        # test_repo.rs: sync_test_home_config_for_hooks — the hook processes also read HOME/.git-ai/config.json
        patch = json.loads(self.env["GIT_AI_TEST_CONFIG_PATCH"])
        cfg = {"exclude_prompts_in_repositories": patch.get("exclude_prompts_in_repositories", []),
               "telemetry_oss": "off", "disable_version_checks": True, "disable_auto_updates": True}
        if patch.get("prompt_storage"):
            cfg["prompt_storage"] = patch["prompt_storage"]
        d = os.path.join(self.home, ".git-ai")
        os.makedirs(d, exist_ok=True)
        with open(os.path.join(d, "config.json"), "w") as f:
            json.dump(cfg, f)

    def repo(self, name, init=True, bare=False, both=False):
        p = os.path.join(self.root, name)
        os.makedirs(p, exist_ok=True)
        r = HooksRepo(self, p, both=both)
        if init:
            args = ["init", "-q", "-b", "main"] + (["--bare"] if bare else [])
            r.plain_git(*args)
            r.ensure_hooks()
        return r


class HooksRepo(e2e.Repo):
    """`git(...)` is the system git; git-ai only sees what git's hooks tell it. With both=True the command
    goes through the proxy although the managed hooks are installed (the "both installed" configuration)."""

    def __init__(self, env, path, both=False):
        super().__init__(env, path)
        self.both = both

    def ensure_hooks(self):
        rc, out, err = self.ai("git-hooks", "ensure")
        if rc != 0:
            raise RuntimeError(f"git-ai git-hooks ensure failed rc={rc}: {out} {err}")
        return out

    def git(self, *args, env=None, cwd=None, input=None, check=False):
        if self.both:
            return super().git(*args, env=env, cwd=cwd, input=input, check=check)
        return self.plain_git(*args, env=env, cwd=cwd, input=input, check=check)


def rewrite_log(repo):
    """events of .git/ai/rewrite_log, oldest first (the file is newest first)"""
    p = os.path.join(repo.ai_dir(), "rewrite_log")
    out = []
    try:
        for line in open(p):
            line = line.strip()
            if line:
                try:
                    out.append(json.loads(line))
                except Exception:
                    out.append({"unparsable": line[:80]})
    except FileNotFoundError:
        pass
    out.reverse()
    return out


SIDE_FILES = ["pull_hook_state.json", "rebase_hook_mask_state.json", "stash_ref_tx_state.json",
              "cherry_pick_batch_state.json", "cherry_pick_hook_state"]


def side_state(repo):
    """names of the hook-mode side-state files that currently exist"""
    d = repo.ai_dir()
    return [f for f in SIDE_FILES if os.path.exists(os.path.join(d, f))]


# ---------------------------------------------------------------- canonical forms
def canon_note(text):
    """An authorship note under the property's equivalence: files → session hash → sorted line set; the prompt
    records (agent, human author, messages, counters); the base commit. The tool version is dropped."""
    if text is None:
        return None
    n = e2e.parse_note(text)
    files = {p: {h: sorted(set(ls)) for h, ls in hs.items() if ls} for p, hs in n["files"].items()}
    files = {p: hs for p, hs in files.items() if hs}
    meta = n.get("meta") or {}
    prompts = {}
    for h, pr in (meta.get("prompts") or {}).items():
        prompts[h] = {k: pr.get(k) for k in ("agent_id", "human_author", "messages", "total_additions", "total_deletions",
                                             "accepted_lines", "overriden_lines")}
    return {"files": files, "prompts": prompts, "base": meta.get("base_commit_sha"), "errors": n["errors"]}


def canon_blame(bj):
    if bj is None:
        return None
    lines = e2e.blame_line_hashes(bj)
    prompts = {}
    for h, pr in (bj.get("prompts") or {}).items():
        prompts[h] = {"agent_id": pr.get("agent_id"), "human_author": pr.get("human_author"),
                      "commits": sorted(pr.get("commits") or []), "other_files": sorted(pr.get("other_files") or [])}
    return {"lines": {str(k): v for k, v in sorted(lines.items())}, "prompts": prompts}


def working_logs(repo):
    """pending attribution per base commit: INITIAL (file → hash → lines) and, per checkpoint, kind + files"""
    d = os.path.join(repo.ai_dir(), "working_logs")
    out = {}
    try:
        names = sorted(os.listdir(d))
    except FileNotFoundError:
        return out
    for nm in names:
        if nm.startswith("old-"):
            continue
        ent = {}
        try:
            ini = json.load(open(os.path.join(d, nm, "INITIAL")))
            fs = {}
            for p, las in (ini.get("files") or {}).items():
                m = {}
                for la in las:
                    m.setdefault(la["author_id"], []).extend(range(la["start_line"], la["end_line"] + 1))
                fs[p] = {h: sorted(set(v)) for h, v in m.items()}
            if fs:
                ent["initial"] = fs
        except Exception:
            pass
        cps = []
        try:
            for line in open(os.path.join(d, nm, "checkpoints.jsonl")):
                line = line.strip()
                if not line:
                    continue
                cp = json.loads(line)
                files = {}
                for e in cp.get("entries", []):
                    m = {}
                    for la in e.get("line_attributions", []):
                        m.setdefault(la["author_id"], []).extend(range(la["start_line"], la["end_line"] + 1))
                    files[e["file"]] = {h: sorted(set(v)) for h, v in m.items()}
                cps.append({"kind": cp.get("kind"), "files": files})
        except FileNotFoundError:
            pass
        if cps:
            # the latest entry per file is what a commit will use
            last = {}
            for cp in cps:
                for f, m in cp["files"].items():
                    last[f] = m
            ent["latest"] = last
            ent["n_checkpoints"] = len(cps)
        if ent:
            out[nm] = ent
    return out


HANDLED = ("commit", "commit_amend", "merge_squash", "rebase_complete", "cherry_pick_complete")


def canon_event(ev):
    """One rewrite_log line → (kind, payload) keeping exactly what `rewrite_authorship_if_needed` reads
    (rebase_authorship.rs): kind, commit lists, heads / base. Flags and names the handler ignores
    (is_interactive, source_branch, base_branch) are dropped. Bookkeeping events → kind only."""
    if not isinstance(ev, dict) or len(ev) != 1:
        return ("unparsable", ev)
    (k, v), = ev.items()
    if k == "commit":
        return ("commit", {"base": v.get("base_commit"), "sha": v.get("commit_sha")})
    if k == "commit_amend":
        return ("commit_amend", {"orig": v.get("original_commit"), "new": v.get("amended_commit_sha")})
    if k == "merge_squash":
        return ("merge_squash", {"source_head": v.get("source_head"), "base_head": v.get("base_head")})
    if k == "rebase_complete":
        return ("rebase_complete", {"original_head": v.get("original_head"), "new_head": v.get("new_head"),
                                    "original_commits": v.get("original_commits"), "new_commits": v.get("new_commits")})
    if k == "cherry_pick_complete":
        return ("cherry_pick_complete", {"new_head": v.get("new_head"),
                                         "source_commits": v.get("source_commits"), "new_commits": v.get("new_commits")})
    return (k, None)


def canon_journal(events, handled_only=True):
    out = [canon_event(e) for e in events]
    if handled_only:
        out = [e for e in out if e[0] in HANDLED]
    return out
