"""C14 — attribution does not depend on how often or how finely checkpoints are taken (DESIGN §8 C14).

Metamorphic end-to-end check: a generated base history (the C01 generator) is replayed with
redundancy inserted — extra human checkpoints after human edits, repeated checkpoints with no
intervening change, one agent edit split into consecutive checkpoints of the same session,
read-only git commands in between — and the final notes and blame must be identical.
"""
import concurrent.futures, copy, json, os, traceback

from vlib import common as C, e2e, sysrun as S, sysmrun as M
from vlib.props import c01

PROP = "C14"
THEOREMS = ["GitAi.Sys.checkpoint_idempotent", "GitAi.Sys.granularity_checkpoints", "GitAi.Sys.granularity_split_agent_edit",
            # several files under one working log (Model/SysMulti.lean, Props/SysMulti.lean)
            "GitAi.SysMulti.prune_per_file", "GitAi.SysMulti.next_checkpoint_base", "GitAi.SysMulti.checkpoint_scope",
            "GitAi.SysMulti.aiEdit_scope", "GitAi.SysMulti.checkpoint_split_by_file", "GitAi.SysMulti.file_isolation",
            "GitAi.SysMulti.preExact_needed", "GitAi.SysMulti.commit_exact_lifted"]

READONLY = [["status"], ["status", "--short"], ["log", "--oneline", "-3"], ["diff"], ["diff", "--cached", "--stat"],
            ["show", "--stat", "HEAD"], ["branch"], ["rev-parse", "HEAD"], ["ls-files"], ["log", "-1", "--format=%H"],
            ["diff", "--name-only"], ["stash", "list"], ["remote", "-v"], ["describe", "--always"], ["shortlog", "-s", "HEAD"]]


def split_edit(prev_lines, st):
    """Split an AI edit that adds ≥ 2 new lines into two consecutive edits of the same session:
    first only the first new line, then the rest. Returns [st1, st2] or None."""
    old_uids = {l[2] for l in prev_lines}
    new_idx = [i for i, l in enumerate(st["lines"]) if l[2] not in old_uids]
    if len(new_idx) < 2 or st["who"] == "human":
        return None
    # intermediate content: final content minus all new lines but the first; removed old lines stay removed
    drop = set(new_idx[1:])
    inter = [list(l) for i, l in enumerate(st["lines"]) if i not in drop]
    st1 = dict(st, lines=inter, kind=(st.get("kind", "") + "/part1"))
    st2 = dict(st, kind=(st.get("kind", "") + "/part2"))
    return [st1, st2]


def gen_tail_human(seed):
    """Base histories in which every round ends with two or three consecutive edits by a person in the
    files the agents touched (no checkpoint in between), so that an inserted human checkpoint is followed
    by further unreported edits before the commit."""
    rng = S.Rng(seed ^ 0x7A11)
    w = S.World()
    names = ["t1.txt", "src/t2.rs"][: 1 + rng.below(2)]
    steps = []
    for n in names:
        w.files[n] = [w.fresh(S.gen_text(rng, w, "plain"), None) for _ in range(3 + rng.below(5))]
        steps.append({"op": "edit", "who": "human", "path": n, "lines": [list(l) for l in w.files[n]]})
    steps.append({"op": "commit", "msg": "base"})
    sessions = ["s1", "s2"][: 1 + rng.below(2)]
    for rd in range(1 + rng.below(2)):
        touched = []
        for _ in range(1 + rng.below(3)):
            who = rng.pick(sessions)
            path = rng.pick(names)
            steps.append({"op": "human_checkpoint", "paths": [path]})
            kind = S.gen_edit(rng, w, path, who, "plain")
            steps.append({"op": "edit", "who": who, "path": path, "kind": kind, "lines": [list(l) for l in w.files[path]]})
            touched.append(path)
        for _ in range(2 + rng.below(2)):
            path = rng.pick(touched)
            kind = S.gen_edit(rng, w, path, "human", "plain")
            steps.append({"op": "edit", "who": "human", "path": path, "kind": kind, "lines": [list(l) for l in w.files[path]]})
        steps.append({"op": "commit", "msg": f"round {rd}"})
    return {"seed": seed, "style": "tail-human", "file_opts": {}, "steps": steps}


def refine(sc, seed, k):
    """Insert k redundancies of random kinds into a copy of scenario sc."""
    rng = S.Rng(seed ^ 0xC14)
    steps = copy.deepcopy(sc["steps"])
    kinds = []
    for _ in range(k):
        kind = rng.pick(["extra_human_checkpoint", "repeat_checkpoint", "split_agent_edit", "readonly"] +
                        (["split_agent_edit_by_file"] * 3 if any(st["op"] == "edit_multi" for st in steps) else []))
        if kind == "extra_human_checkpoint":
            idx = [i for i, st in enumerate(steps) if st["op"] == "edit" and st["who"] == "human"]
            if not idx:
                continue
            i = rng.pick(idx)
            steps.insert(i + 1, {"op": "checkpoint", "redundant": True})
        elif kind == "repeat_checkpoint":
            idx = [i for i, st in enumerate(steps) if st["op"] in ("human_checkpoint", "checkpoint") or (st["op"] == "edit" and st["who"] != "human")]
            if not idx:
                continue
            i = rng.pick(idx)
            st = steps[i]
            if st["op"] == "edit":
                steps.insert(i + 1, {"op": "ai_checkpoint_again", "who": st["who"], "path": st["path"], "redundant": True})
            else:
                steps.insert(i + 1, dict(st, redundant=True))
        elif kind == "split_agent_edit":
            cands = []
            cur = {}
            for i, st in enumerate(steps):
                if st["op"] == "edit":
                    if st["who"] != "human" and not st.get("kind", "").endswith(("/part1", "/part2")):
                        sp = split_edit(cur.get(st["path"], []), st)
                        if sp:
                            cands.append((i, sp))
                    cur[st["path"]] = st["lines"]
                elif st["op"] == "edit_multi":
                    cur.update(st["files"])
            if not cands:
                continue
            i, sp = rng.pick(cands)
            steps[i:i + 1] = sp
        elif kind == "split_agent_edit_by_file":
            # one agent checkpoint covering several files -> one checkpoint per file (same session, same edits)
            idx = [i for i, st in enumerate(steps) if st["op"] == "edit_multi"]
            if not idx:
                continue
            i = rng.pick(idx)
            steps[i:i + 1] = M.split_multi_by_file(steps[i])
        else:
            i = 1 + rng.below(len(steps))
            steps.insert(i, {"op": "git", "args": rng.pick(READONLY), "redundant": True})
        kinds.append(kind)
    out = dict(sc, steps=steps)
    out["refinements"] = kinds
    return out


Runner14 = M.RunnerM      # knows `ai_checkpoint_again` and `edit_multi`, records the working log before every commit


def final_state(sc):
    """Run a scenario; return canonical notes per commit index and blame at the end."""
    with e2e.Env() as env:
        run = Runner14(env, file_opts=sc.get("file_opts"))
        for st in sc["steps"]:
            run.step(st)
        notes = []
        for sha, files in run.commits:
            obs = S.observed_note_lines(run.repo.note(sha))
            notes.append({p: {str(l): h for l, h in d.items()} for p, d in sorted(obs.items())})
        blame = {}
        for p, lines in run.ghost.items():
            if lines:
                bj = run.repo.blame(p)
                blame[p] = {str(l): h for l, h in e2e.blame_line_hashes(bj).items()} if bj is not None else None
        out = {"notes": notes, "blame": blame, "ncommits": len(run.commits)}
        if sc.get("style") == "multi-file":
            # raw material of the correspondence with Model/SysMulti.lean (not part of the metamorphic comparison)
            sc["_m"] = {"observed": [S.observed_note_lines(run.repo.note(sha)) for sha, _ in run.commits[1:]],
                        "commit_ok": list(run.commit_ok), "logs": run.logs_before_commit}
        return out


def run_pair(args, _attempt=0):
    sc, variants = args
    out = []
    try:
        base = final_state(sc)
        for v in variants:
            got = final_state(v)
            out.append((v, base, got))
    except Exception as ex:
        if _attempt < 2:
            return run_pair(args, _attempt + 1)
        out.append((None, {"error": repr(ex), "trace": traceback.format_exc()[-1200:]}, None))
    return out


def phase_sysm(res, runs):
    """Correspondence of Model/SysMulti.lean (driver op `sysm_run`) with the binary on the multi-file histories
    that were just executed (bases and refinements): predicted note lines of every (file, commit) = observed."""
    todo = []
    for sc in runs:
        m = sc.pop("_m", None)
        if m is None:
            continue
        req, pids, sess, made = M.sysm_request(sc, commit_ok=m["commit_ok"])
        todo.append((sc, m, req, pids, sess))
    if not todo:
        return
    resps = C.run_driver([t[2] for t in todo])
    ncmp, bad, iso, nlog, badlog = 0, [], [], 0, []
    for (sc, m, req, pids, sess), resp in zip(todo, resps):
        n, b, i = M.compare_response(req, pids, sess, resp, m["observed"])
        ncmp += n
        bad += [dict(x, seed=sc["seed"], refinements=sc.get("refinements")) for x in b]
        iso += i
        # (a `git stash …` takes a checkpoint with the pre-commit fast paths, which the model does not have: notes only)
        n2, b2 = (0, []) if M.stash_in(sc) else M.compare_logs(pids, resp, m["logs"], m["commit_ok"])
        nlog += n2
        badlog += [dict(x, seed=sc["seed"], refinements=sc.get("refinements"), request=req) for x in b2]
        res.tag([f"sysm-ops={min(len(req['ops']) // 5 * 5, 30)}+"] + [f"sysm-op={o['k']}" for o in req["ops"]][:0])
        for o in {o["k"] for o in req["ops"]}:
            res.tags[f"sysm-op={o}"] = res.tags.get(f"sysm-op={o}", 0) + 1
    cs = res.extra.setdefault("correspondence", {}).setdefault("sysm-e2e", {"compared": 0, "disagreements": 0, "scenarios": 0})
    cs["compared"] += ncmp; cs["disagreements"] += len(bad); cs["scenarios"] += len(todo)
    res.obligation("correspondence:sysm-e2e (SysMulti model's predicted notes of every file and commit vs notes written by the binary)",
                   not bad, "correspondence")
    if bad:
        res.broken_tie("correspondence:sysm-e2e", {"disagreements": len(bad), "of": ncmp, "first": bad[0]})
    cl = res.extra["correspondence"].setdefault("sysm-log-shape", {"compared": 0, "disagreements": 0})
    cl["compared"] += nlog; cl["disagreements"] += len(badlog)
    res.obligation("correspondence:sysm-log-shape (working log before every commit: same checkpoints, same files per checkpoint, "
                   "character ranges cleared exactly where the model's prune clears them)", not badlog, "correspondence")
    if badlog:
        res.broken_tie("correspondence:sysm-log-shape", {"disagreements": len(badlog), "of": nlog, "first": badlog[0]})
    res.obligation("driver cross-check: one-file run of the projected operations ends as the multi-file run (file_isolation, executed)",
                   not iso, "correspondence")
    if iso:
        res.broken_tie("driver cross-check file_isolation", {"failures": len(iso), "first": iso[0]})


def phase(res, seeds, nvar, k, threads=16):
    jobs = []
    for n_, s in enumerate(seeds):
        sc = [c01.gen_scenario, gen_tail_human, M.gen_multi][n_ % 3](s)
        jobs.append((sc, [refine(sc, s * 31 + j, 1 + (j % k)) for j in range(nvar)]))
    with concurrent.futures.ThreadPoolExecutor(threads) as ex:
        outs = list(ex.map(run_pair, jobs))
    phase_sysm(res, [x for sc, vs in jobs for x in [sc] + vs])
    for (sc, _), pairs in zip(jobs, outs):
        for v, base, got in pairs:
            if v is None:
                res.oracle_failure("runner-exception", base, what="runner exception")
                continue
            res.count_case(json.dumps(v["steps"], ensure_ascii=False), nontrivial=bool(v["refinements"]))
            res.tag([f"refine={r}" for r in set(v["refinements"])] + [f"commits={base['ncommits']}", f"base={sc.get('style')}"])
            res.sample({"seed": sc["seed"], "refinements": v["refinements"]}, cap=3)
            if base != got:
                kinds = "+".join(sorted(set(v["refinements"])))
                diff = {"notes_equal": base["notes"] == got["notes"], "blame_equal": base["blame"] == got["blame"]}
                res.oracle_failure(f"attribution-changed-by:{kinds}",
                                   {"base_scenario": {k_: v_ for k_, v_ in sc.items() if k_ != "_m"}, "refined_steps": [{k_: (v_ if k_ != "lines" else v_) for k_, v_ in st.items()} for st in v["steps"]],
                                    "refinements": v["refinements"], "base": base, "refined": got, "diff": diff},
                                   what="final notes/blame differ between a history and its refinement")


def run(tier, seed):
    res = C.Result(PROP, tier, seed)
    res.rule = ("end-to-end metamorphic: each generated base history (C01 generator; histories whose rounds end with consecutive unreported edits by a person in agent-touched files; "
                "multi-file histories: one agent checkpoint covering 2-3 files, then checkpoints touching one of them, people typing in other files, commits of a subset) is replayed with 1-4 inserted redundancies "
                "(extra human checkpoint after a human edit, repeated checkpoint, agent edit split into two checkpoints of the "
                "same session, a multi-file agent checkpoint split into one checkpoint per file, read-only git command); canonical notes per commit and blame must be equal; non-trivial = at "
                "least one redundancy inserted; distinct = distinct refined step list. Correspondence (multi-file histories, bases and refinements): Model/SysMulti.lean through driver op sysm_run "
                "predicts the note lines of every (file, commit) and the shape of the working log before every commit (checkpoints, files per checkpoint, cleared character ranges)")
    res.trusted = ["vlib/sysrun.py, vlib/sysmrun.py (scenario -> sysm_run translation, multi-file generator), vlib/props/c14.py refinement generator", "real git 2.39",
                   "Lean 4.33 kernel"]
    ok, out = C.build_git_ai()
    if not ok:
        res.obligation("build binary from /repo working tree", False, "build")
        res.broken_tie("build", out[-3000:])
        return res.finish()
    if os.path.exists(os.path.join(C.LEAN, "GitAiModel", "Props", "C14.lean")):
        C.phase_proofs(res, PROP, THEOREMS)
    if tier == "quick":
        phase(res, [seed * 100000 + i for i in range(60)], 3, 3)
    else:
        phase(res, [seed * 100000 + i for i in range(750)], 6, 4)
    if res.broken and not res.violations:
        phase(res, [seed * 100000 + 50000 + i for i in range(120)], 4, 4)
        res.extra["search"] = "120 extra base histories x 4 refinements"
    return res.finish()
