"""C14 — attribution does not depend on how often or how finely checkpoints are taken (DESIGN §8 C14).

Metamorphic end-to-end check: a generated base history (the C01 generator) is replayed with
redundancy inserted — extra human checkpoints after human edits, repeated checkpoints with no
intervening change, one agent edit split into consecutive checkpoints of the same session,
read-only git commands in between — and the final notes and blame must be identical.
"""
import concurrent.futures, copy, json, os, traceback

from vlib import common as C, e2e, sysrun as S
from vlib.props import c01

PROP = "C14"
THEOREMS = ["GitAi.Sys.checkpoint_idempotent", "GitAi.Sys.granularity_checkpoints", "GitAi.Sys.granularity_split_agent_edit"]

READONLY = [["status"], ["status", "--short"], ["log", "--oneline", "-3"], ["diff"], ["diff", "--cached", "--stat"],
            ["show", "--stat", "HEAD"], ["branch"], ["rev-parse", "HEAD"], ["ls-files"], ["log", "-1", "--format=%H"],
            ["diff", "--name-only"], ["stash", "list"], ["remote", "-v"], ["describe", "--always"], ["shortlog", "-s", "HEAD"]]


def split_edit(prev_lines, st):
    """Split an AI edit that adds ≥ 2 new lines into two consecutive edits of the same session:
    first only the first new line, then the rest. Returns [st1, st2] or None."""
    old_uids = {l[2] for l in prev_lines}
    new_idx = [i for i, l in enumerate(st["lines"]) if l[2] not in old_uids]
    if len(new_idx) < 2 or st["who"] == "human":
        return None
    # intermediate content: final content minus all new lines but the first; removed old lines stay removed
    drop = set(new_idx[1:])
    inter = [list(l) for i, l in enumerate(st["lines"]) if i not in drop]
    st1 = dict(st, lines=inter, kind=(st.get("kind", "") + "/part1"))
    st2 = dict(st, kind=(st.get("kind", "") + "/part2"))
    return [st1, st2]


def gen_tail_human(seed):
    """Base histories in which every round ends with two or three consecutive edits by a person in the
    files the agents touched (no checkpoint in between), so that an inserted human checkpoint is followed
    by further unreported edits before the commit."""
    rng = S.Rng(seed ^ 0x7A11)
    w = S.World()
    names = ["t1.txt", "src/t2.rs"][: 1 + rng.below(2)]
    steps = []
    for n in names:
        w.files[n] = [w.fresh(S.gen_text(rng, w, "plain"), None) for _ in range(3 + rng.below(5))]
        steps.append({"op": "edit", "who": "human", "path": n, "lines": [list(l) for l in w.files[n]]})
    steps.append({"op": "commit", "msg": "base"})
    sessions = ["s1", "s2"][: 1 + rng.below(2)]
    for rd in range(1 + rng.below(2)):
        touched = []
        for _ in range(1 + rng.below(3)):
            who = rng.pick(sessions)
            path = rng.pick(names)
            steps.append({"op": "human_checkpoint", "paths": [path]})
            kind = S.gen_edit(rng, w, path, who, "plain")
            steps.append({"op": "edit", "who": who, "path": path, "kind": kind, "lines": [list(l) for l in w.files[path]]})
            touched.append(path)
        for _ in range(2 + rng.below(2)):
            path = rng.pick(touched)
            kind = S.gen_edit(rng, w, path, "human", "plain")
            steps.append({"op": "edit", "who": "human", "path": path, "kind": kind, "lines": [list(l) for l in w.files[path]]})
        steps.append({"op": "commit", "msg": f"round {rd}"})
    return {"seed": seed, "style": "tail-human", "file_opts": {}, "steps": steps}


def refine(sc, seed, k):
    """Insert k redundancies of random kinds into a copy of scenario sc."""
    rng = S.Rng(seed ^ 0xC14)
    steps = copy.deepcopy(sc["steps"])
    kinds = []
    for _ in range(k):
        kind = rng.pick(["extra_human_checkpoint", "repeat_checkpoint", "split_agent_edit", "readonly"])
        if kind == "extra_human_checkpoint":
            idx = [i for i, st in enumerate(steps) if st["op"] == "edit" and st["who"] == "human"]
            if not idx:
                continue
            i = rng.pick(idx)
            steps.insert(i + 1, {"op": "checkpoint", "redundant": True})
        elif kind == "repeat_checkpoint":
            idx = [i for i, st in enumerate(steps) if st["op"] in ("human_checkpoint", "checkpoint") or (st["op"] == "edit" and st["who"] != "human")]
            if not idx:
                continue
            i = rng.pick(idx)
            st = steps[i]
            if st["op"] == "edit":
                steps.insert(i + 1, {"op": "ai_checkpoint_again", "who": st["who"], "path": st["path"], "redundant": True})
            else:
                steps.insert(i + 1, dict(st, redundant=True))
        elif kind == "split_agent_edit":
            cands = []
            cur = {}
            for i, st in enumerate(steps):
                if st["op"] == "edit":
                    if st["who"] != "human" and not st.get("kind", "").endswith(("/part1", "/part2")):
                        sp = split_edit(cur.get(st["path"], []), st)
                        if sp:
                            cands.append((i, sp))
                    cur[st["path"]] = st["lines"]
            if not cands:
                continue
            i, sp = rng.pick(cands)
            steps[i:i + 1] = sp
        else:
            i = 1 + rng.below(len(steps))
            steps.insert(i, {"op": "git", "args": rng.pick(READONLY), "redundant": True})
        kinds.append(kind)
    out = dict(sc, steps=steps)
    out["refinements"] = kinds
    return out


class Runner14(S.Runner):
    def step(self, st):
        if st["op"] == "ai_checkpoint_again":
            res = self.repo.ai_checkpoint(st["who"], [st["path"]], tool=S.TOOL)
            self.log.append({"step": st, "rc": res[0]})
            return res
        return super().step(st)


def final_state(sc):
    """Run a scenario; return canonical notes per commit index and blame at the end."""
    with e2e.Env() as env:
        run = Runner14(env, file_opts=sc.get("file_opts"))
        for st in sc["steps"]:
            run.step(st)
        notes = []
        for sha, files in run.commits:
            obs = S.observed_note_lines(run.repo.note(sha))
            notes.append({p: {str(l): h for l, h in d.items()} for p, d in sorted(obs.items())})
        blame = {}
        for p, lines in run.ghost.items():
            if lines:
                bj = run.repo.blame(p)
                blame[p] = {str(l): h for l, h in e2e.blame_line_hashes(bj).items()} if bj is not None else None
        return {"notes": notes, "blame": blame, "ncommits": len(run.commits)}


def run_pair(args, _attempt=0):
    sc, variants = args
    out = []
    try:
        base = final_state(sc)
        for v in variants:
            got = final_state(v)
            out.append((v, base, got))
    except Exception as ex:
        if _attempt < 2:
            return run_pair(args, _attempt + 1)
        out.append((None, {"error": repr(ex), "trace": traceback.format_exc()[-1200:]}, None))
    return out


def phase(res, seeds, nvar, k, threads=16):
    jobs = []
    for n_, s in enumerate(seeds):
        sc = c01.gen_scenario(s) if n_ % 2 == 0 else gen_tail_human(s)
        jobs.append((sc, [refine(sc, s * 31 + j, 1 + (j % k)) for j in range(nvar)]))
    with concurrent.futures.ThreadPoolExecutor(threads) as ex:
        outs = list(ex.map(run_pair, jobs))
    for (sc, _), pairs in zip(jobs, outs):
        for v, base, got in pairs:
            if v is None:
                res.oracle_failure("runner-exception", base, what="runner exception")
                continue
            res.count_case(json.dumps(v["steps"], ensure_ascii=False), nontrivial=bool(v["refinements"]))
            res.tag([f"refine={r}" for r in set(v["refinements"])] + [f"commits={base['ncommits']}", f"base={sc.get('style')}"])
            res.sample({"seed": sc["seed"], "refinements": v["refinements"]}, cap=3)
            if base != got:
                kinds = "+".join(sorted(set(v["refinements"])))
                diff = {"notes_equal": base["notes"] == got["notes"], "blame_equal": base["blame"] == got["blame"]}
                res.oracle_failure(f"attribution-changed-by:{kinds}",
                                   {"base_scenario": sc, "refined_steps": [{k_: (v_ if k_ != "lines" else v_) for k_, v_ in st.items()} for st in v["steps"]],
                                    "refinements": v["refinements"], "base": base, "refined": got, "diff": diff},
                                   what="final notes/blame differ between a history and its refinement")


def run(tier, seed):
    res = C.Result(PROP, tier, seed)
    res.rule = ("end-to-end metamorphic: each generated base history (C01 generator, and histories whose rounds end with consecutive unreported edits by a person in agent-touched files) is replayed with 1-4 inserted redundancies "
                "(extra human checkpoint after a human edit, repeated checkpoint, agent edit split into two checkpoints of the "
                "same session, read-only git command); canonical notes per commit and blame must be equal; non-trivial = at "
                "least one redundancy inserted; distinct = distinct refined step list")
    res.trusted = ["vlib/sysrun.py, vlib/props/c14.py refinement generator", "real git 2.39"]
    ok, out = C.build_git_ai()
    if not ok:
        res.obligation("build binary from /repo working tree", False, "build")
        res.broken_tie("build", out[-3000:])
        return res.finish()
    if os.path.exists(os.path.join(C.LEAN, "GitAiModel", "Props", "C14.lean")):
        C.phase_proofs(res, PROP, THEOREMS)
    if tier == "quick":
        phase(res, [seed * 100000 + i for i in range(48)], 3, 3)
    else:
        phase(res, [seed * 100000 + i for i in range(500)], 6, 4)
    if res.broken and not res.violations:
        phase(res, [seed * 100000 + 50000 + i for i in range(120)], 4, 4)
        res.extra["search"] = "120 extra base histories x 4 refinements"
    return res.finish()
