"""C15 — the note-remapping shortcut gives the same answer as full recomputation (DESIGN §8 C15).

Phases: Lean proofs + axiom audit; in-process suites `c15` (remap scanner / fallback vs model,
only-base oracle) and `c15repo` (raw diff-tree scanner through the output seam, real
try_fast_path_* decisions on a scratch repository vs model and vs an independent recomputation);
end-to-end TWIN runs: every generated rebase / cherry-pick history is executed twice from
identical snapshots, once normally and once with GIT_AI_VERIF_NO_FAST_PATH=1, and the notes of the
rewritten commits are compared under `≈` and under blame-equivalence.  Since /repo fb18b9e3 full replay
writes per-commit notes (O14 repaired): any difference under `≈` is a violation.
"""
import concurrent.futures, json, os, random, shutil, time
from vlib import common as C
from vlib import e2e

PROP = "C15"
THEOREMS = [
    "GitAi.Remap.remap_is_base_update",
    "GitAi.Remap.json_escaping_lemma",
    "GitAi.Remap.witness_prefix_not_ok",
    "GitAi.Remap.witness_target_needs_escaping",
    "GitAi.Remap.decline_when_any_pair_differs",
    "GitAi.Remap.scanner_true_iff_no_record",
    "GitAi.Remap.comparator_complete",
    "GitAi.Remap.remap_equiv_original",
    "GitAi.Remap.shortcut_equiv_replay_abstract",
    "GitAi.Remap.replay_pair_equiv",
    "GitAi.Remap.shortcut_equiv_replay",
    "GitAi.Remap.replay_lines_per_commit",
    "GitAi.Remap.shortcut_blame_equiv",
    "GitAi.Remap.w14_replay_lines",
    "GitAi.Remap.w14_shortcut_equiv_replay",
    "GitAi.Remap.cumulative_emission_not_equiv",
]
MARK_REBASE = "fast-path-rebase-note-remap"
MARK_CP = "fast-path-cherry-pick-note-remap"
CLOCK0 = 1760000000          # after blame.rs OLDEST_AI_BLAME_DATE (2025-07-04); see report
KINDS = ["rebase-clean", "rebase-clean", "rebase-clean", "rebase-upstream-tracked", "rebase-reorder",
         "rebase-drop", "rebase-missing-note", "cp-single", "cp-range", "cp-range", "cp-list-skip",
         "cp-target-differs"]
# the target / upstream has ALREADY made a line-count-changing change (deletes the first line of a tracked file)
# which the LAST commit of the series makes too: git merges the identical change cleanly, the final pair of
# (original, rewritten) commits is blob-identical on the tracked paths, every earlier pair is not (and its AI
# lines sit one line higher than the original's note says). Drawn from their own stream (specs_for), so that the
# histories of the older kinds keep their seeds.  (seeded/C05-seed3-cherry-pick-last-pair-only)
EXTRA_KINDS = ["cp-target-anticipates", "rebase-upstream-anticipates"]
TRACKED_NAMES = ["f1.txt", "src/g2.py", "h 3.md", "w[1].txt", "dé/k.rs"]


# ---------------------------------------------------------------- scenario generation (ghost-carrying)

class Line:
    __slots__ = ("text", "who", "born")

    def __init__(self, text, who=None, born=0):
        self.text, self.who, self.born = text, who, born


def content(lines):
    return "".join(l.text + "\n" for l in lines)


def gen_spec(kind, seed):
    """A scenario: base files, a list of feature commits (each: session + per-file edit ops), and
    what happens upstream. Pure data, reproducible from (kind, seed)."""
    rnd = random.Random(f"c15:{kind}:{seed}")
    ntracked = rnd.randint(2, 3) if kind in ("rebase-reorder",) else rnd.randint(1, 3)
    tracked = rnd.sample(TRACKED_NAMES, ntracked)
    ncommits = rnd.randint(3, 4) if kind == "rebase-reorder" else rnd.randint(2, 4)
    if kind == "cp-single":
        ncommits = rnd.randint(1, 3)
    anticipate = kind in EXTRA_KINDS
    commits = []
    for k in range(1, ncommits + 1):
        if kind == "rebase-reorder" and k >= ncommits - 1:
            # the two commits that get swapped touch different files so that they commute
            files = [tracked[(k - ncommits) % len(tracked)]]
        else:
            files = rnd.sample(tracked, rnd.randint(1, min(2, len(tracked))))
        if anticipate and k == 1 and tracked[-1] not in files:
            files.append(tracked[-1])       # an AI line of an EARLIER commit sits below the anticipated deletion
        edits = []
        for f in files:
            ops = [("insert", rnd.random(), rnd.randint(1, 3))]
            if k >= 2 and kind in ("rebase-clean", "cp-range") and rnd.random() < 0.25:
                ops.append((rnd.choice(["overwrite", "delete"]), rnd.random(), 1))
            edits.append((f, ops))
        commits.append({"session": f"sess-{seed}-{k}" if rnd.random() < 0.8 else f"sess-{seed}-1", "edits": edits})
        # a second session whose only line a person removes before the commit: its record is in the commit's
        # note without any line (drawn last, from its own stream, so that older corpus seeds keep their histories)
        if random.Random(f"c15x:{kind}:{seed}:{k}").random() < 0.15:
            commits[-1]["extra_session"] = f"gone-{seed}-{k}"
    return {"kind": kind, "seed": seed, "tracked": tracked, "commits": commits, "anticipate": anticipate,
            "human_mid": kind == "cp-list-skip" or (kind in ("rebase-clean", "cp-range") and rnd.random() < 0.2),
            "base_len": rnd.randint(7, 10), "drop_note": rnd.randrange(ncommits), "tool_input": rnd.random() < 0.35}


FIXED = {
    # DESIGN appendix A O14: the two-commit witness (Lean: w14_t1 / w14_t2)
    "o14-witness": {"kind": "rebase-clean", "seed": "o14", "tracked": ["f1.txt", "f2.txt"], "base_len": 4,
                    "human_mid": False, "drop_note": 0,
                    "commits": [{"session": "s1", "edits": [("f1.txt", [("insert", 0.0, 1)])]},
                                {"session": "s2", "edits": [("f1.txt", [("insert", 0.99, 1)]), ("f2.txt", [("insert", 0.0, 1)])]}]},
    # a later commit of the range rewrites an earlier commit's AI line (known finding
    # slow-path-misattributes-lines-rewritten-later)
    "overwrite-witness": {"kind": "rebase-clean", "seed": "ow", "tracked": ["f1.txt"], "base_len": 5,
                          "human_mid": False, "drop_note": 0,
                          "commits": [{"session": "s1", "edits": [("f1.txt", [("insert", 0.0, 2)])]},
                                      {"session": "s2", "edits": [("f1.txt", [("overwrite", 0.99, 1)])]}]},
    # the prompt record holds a tool call whose input has a "base_commit_sha" key (a later occurrence)
    "tool-input-field": {"kind": "rebase-clean", "seed": "tif", "tracked": ["f1.txt"], "base_len": 5, "human_mid": False,
                         "drop_note": 0, "tool_input": True,
                         "commits": [{"session": "s1", "edits": [("f1.txt", [("insert", 0.5, 1)])]}]},
    # fixed in /repo c69ae45b: a tracked path containing the field name
    "field-name-path": {"kind": "rebase-clean", "seed": "fnp", "tracked": ['k"base_commit_sha":"v".txt'], "base_len": 5,
                        "human_mid": False, "drop_note": 0,
                        "commits": [{"session": "s1", "edits": [('k"base_commit_sha":"v".txt', [("insert", 0.5, 2)])]}]},
    # the same session continues over three commits with a growing transcript: each rewritten commit keeps the
    # version of the record its original recorded (was: the newest version of the whole history, part of O14)
    "session-continues": {"kind": "rebase-clean", "seed": "sc", "tracked": ["f1.txt", "f2.txt"], "base_len": 6, "human_mid": False,
                          "drop_note": 0, "tool_input": True,
                          "commits": [{"session": "s1", "edits": [("f1.txt", [("insert", 0.2, 2)])]},
                                      {"session": "s1", "edits": [("f1.txt", [("insert", 0.9, 1)]), ("f2.txt", [("insert", 0.5, 1)])]},
                                      {"session": "s1", "edits": [("f2.txt", [("insert", 0.1, 2)])]}]},
    # a commit whose note carries a record without lines (the session's line was removed before the commit)
    "record-without-lines": {"kind": "rebase-clean", "seed": "rwl", "tracked": ["f1.txt"], "base_len": 6, "human_mid": False,
                             "drop_note": 0,
                             "commits": [{"session": "s1", "extra_session": "gone1", "edits": [("f1.txt", [("insert", 0.3, 1)])]},
                                         {"session": "s2", "extra_session": "gone2", "edits": [("f1.txt", [("insert", 0.8, 2)])]}]},
    "field-name-path-cp": {"kind": "cp-range", "seed": "fnp2", "tracked": ['"base_commit_sha": "x" y.txt', "f1.txt"], "base_len": 5,
                           "human_mid": False, "drop_note": 0,
                           "commits": [{"session": "s1", "edits": [('"base_commit_sha": "x" y.txt', [("insert", 0.5, 1)])]},
                                       {"session": "s2", "edits": [("f1.txt", [("insert", 0.5, 1)])]}]},
}


def apply_ops(lines, ops, session, k, tag):
    """Edit a ghost file: AI inserts (never within the first/last two lines, which upstream may
    touch), AI overwrite / delete of an earlier AI line of the range."""
    lines = list(lines)
    for (op, where, n) in ops:
        if op == "insert":
            lo, hi = 2, max(2, len(lines) - 2)
            pos = lo + int(where * (hi - lo + 0.999))
            pos = min(pos, hi)
            new = [Line(f"{tag}-ai{k}-{j}", session, k) for j in range(n)]
            lines[pos:pos] = new
        else:
            idx = [i for i, l in enumerate(lines) if l.born and l.born < k]
            if not idx:
                continue
            i = idx[int(where * len(idx)) % len(idx)]
            if op == "overwrite":
                lines[i] = Line(f"{tag}-rewritten{k}", session, k)
            else:
                del lines[i]
    return lines


def triples(tree, keep):
    out = set()
    for path, lines in tree.items():
        for i, l in enumerate(lines, 1):
            if l.who and keep(l):
                out.add((path, e2e.short_hash(l.who, "mock_agent"), i))
    return out


# ---------------------------------------------------------------- independent `≈`

def note_view(note):
    """files / sessions / line sets and prompt records of a parsed note"""
    att = {}
    for path, hs in note["files"].items():
        for h, ls in hs.items():
            if ls:
                att.setdefault((path, h), set()).update(ls)
    meta = dict(note["meta"] or {})
    return att, meta


def equiv(a, b, base_b):
    """a ≈ b with base updated to base_b"""
    if a is None or b is None or a["errors"] or b["errors"]:
        return False
    (aa, am), (ba, bm) = note_view(a), note_view(b)
    if aa != ba or bm.get("base_commit_sha") != base_b:
        return False
    am, bm = dict(am), dict(bm)
    am.pop("base_commit_sha", None); bm.pop("base_commit_sha", None)
    return am == bm


def rewritten_later(ghost, k):
    """files in which an AI line of the range present at commit index k is gone (deleted or
    overwritten) at the original head"""
    out = set()
    for f, lines in ghost[k].items():
        head_texts = {l[0] for l in ghost[-1].get(f, [])}
        if any(l[2] >= 1 and l[1] and l[0] not in head_texts for l in lines):
            out.add(f)
    return out


def ghost_blame(ghost, k, f):
    return {i: l[1] for i, l in enumerate(ghost[k].get(f, []), 1) if l[1] and l[2] >= 1}


# ---------------------------------------------------------------- one twin scenario

def read_trace(path):
    out = []
    try:
        with open(path, errors="replace") as f:
            for line in f:
                line = line.strip()
                if line.startswith("{") and line.endswith("}"):
                    try:
                        out.append(json.loads(line))
                    except Exception:
                        pass
    except FileNotFoundError:
        pass
    return out


def blob_at(r, commit, path):
    rc, out, _ = r.plain_git("rev-parse", "--verify", "-q", f"{commit}:{path}")
    return out.strip() if rc == 0 else None


def run_scenario(spec):
    """Build the history, snapshot, run the operation in both twins, observe. Returns a dict of
    observations (no verdicts)."""
    kind = spec["kind"]
    obs = {"spec": {"kind": kind, "seed": spec["seed"], "fixed": spec.get("fixed")}, "ok": False,
           "tool_input": bool(spec.get("tool_input"))}
    with e2e.Env() as env:
        env.clock = CLOCK0
        r = env.repo("a")
        tracked = spec["tracked"]
        tree = {f: [Line(f"{f}-base-{i}") for i in range(spec["base_len"])] for f in tracked}
        for f in tracked:
            r.write(f, content(tree[f]))
        r.write("up.txt", "u0\n"); r.write("other/o.txt", "o0\n")
        base = r.commit("base")
        r.git("checkout", "-q", "-b", "feature")
        origs, ghost, labels, sessions, picked = [], [], [], set(), []
        ncom = len(spec["commits"])
        for k, c in enumerate(spec["commits"], 1):
            if spec["human_mid"] and k == ncom and ncom >= 2:
                # a human commit in the middle touching line 1 of a tracked file
                f0 = tracked[0]
                tree[f0] = [Line(tree[f0][0].text + "-human-mid")] + tree[f0][1:]
                r.write(f0, content(tree[f0]))
                m = r.commit("human-mid")
                if kind != "cp-list-skip":
                    origs.append(m); ghost.append({f: list(v) for f, v in tree.items()}); labels.append(0)
            files = []
            if spec.get("anticipate") and k == ncom and ncom >= 2:
                # a person deletes the first line of the last tracked file as part of the last commit
                fa = tracked[-1]
                tree[fa] = tree[fa][1:]
                r.write(fa, content(tree[fa]))
                r.human_checkpoint([fa])
            if c.get("extra_session"):
                f0 = c["edits"][0][0]
                r.write(f0, content(tree[f0][:2] + [Line(f"k{k}-gone")] + tree[f0][2:]))
                rc, _, err = r.ai_checkpoint(c["extra_session"], [f0])
                if rc != 0:
                    obs["error"] = f"checkpoint failed: {err[-300:]}"; return obs
                r.human_checkpoint([f0])
                r.write(f0, content(tree[f0]))
                r.human_checkpoint([f0])
            for (f, ops) in c["edits"]:
                tree[f] = apply_ops(tree[f], ops, c["session"], k, f"k{k}")
                r.write(f, content(tree[f])); files.append(f)
            transcript = None
            if spec.get("tool_input"):
                # a later, unescaped occurrence of the field name inside the prompt record
                transcript = {"messages": [{"type": "user", "text": "rebase it"},
                                           {"type": "tool_use", "name": "git_rebase",
                                            "input": {"base_commit_sha": f"abc{k}", "opts": {"base_commit_sha": "nested"}}}]}
            rc, _, err = r.ai_checkpoint(c["session"], files, transcript=transcript)
            if rc != 0:
                obs["error"] = f"checkpoint failed: {err[-300:]}"; return obs
            sha = r.commit(f"c{k}")
            if sha is None:
                obs["error"] = "commit failed"; return obs
            origs.append(sha); picked.append(sha); sessions.add(e2e.short_hash(c["session"], "mock_agent"))
            ghost.append({f: list(v) for f, v in tree.items()}); labels.append(k)
        if kind == "cp-list-skip":
            origs = picked
        if kind == "cp-single":
            origs, ghost, labels = origs[:1], ghost[:1], labels[:1]
        # upstream
        r.git("checkout", "-q", "main")
        r.write("up.txt", "u0\nu1\n")
        if kind in ("rebase-upstream-tracked", "cp-target-differs"):
            f0 = tracked[-1]
            r.write(f0, content([Line(f"{f0}-base-0-upstream")] + [Line(f"{f0}-base-{i}") for i in range(1, spec["base_len"])]))
        if spec.get("anticipate"):
            f0 = tracked[-1]
            r.write(f0, content([Line(f"{f0}-base-{i}") for i in range(1, spec["base_len"])]))
        r.commit("upstream")
        if kind == "rebase-missing-note":
            r.plain_git("notes", "--ref=ai", "remove", origs[spec["drop_note"] % len(origs)])
        if kind.startswith("rebase"):
            r.git("checkout", "-q", "feature")
        pre_head = r.head()
        orig_notes = {o: r.note_text(o) for o in origs}
        # ---- snapshot
        twin = os.path.join(env.root, "b")
        shutil.copytree(r.path, twin, symlinks=True)
        r2 = e2e.Repo(env, twin)
        helper = os.path.join(env.root, "seqedit.py")
        with open(helper, "w") as f:
            f.write("import sys\np=sys.argv[2]\nL=[l for l in open(p) if l.strip() and not l.startswith('#')]\n"
                    "if sys.argv[1]=='swap': L[-1],L[-2]=L[-2],L[-1]\n"
                    "if sys.argv[1]=='drop': L=L[:-1]\nopen(p,'w').write(''.join(L))\n")
        runs = {}
        for name, rr, extra in (("fast", r, {}), ("slow", r2, {"GIT_AI_VERIF_NO_FAST_PATH": "1"})):
            tr = os.path.join(env.root, name + ".trace")
            ee = dict(extra); ee["GIT_AI_VERIF_TRACE"] = tr
            env.clock = CLOCK0 + 100000          # identical commit dates in both twins
            if kind == "rebase-reorder":
                ee["GIT_SEQUENCE_EDITOR"] = f"python3 {helper} swap"
                rc, out, err = rr.git("rebase", "-i", "main", env=ee)
            elif kind == "rebase-drop":
                ee["GIT_SEQUENCE_EDITOR"] = f"python3 {helper} drop"
                rc, out, err = rr.git("rebase", "-i", "main", env=ee)
            elif kind.startswith("rebase"):
                rc, out, err = rr.git("rebase", "main", env=ee)
            elif kind == "cp-range":
                rc, out, err = rr.git("cherry-pick", f"{base}..feature", env=ee)
            else:
                rc, out, err = rr.git("cherry-pick", *origs, env=ee)
            lo = "main" if kind.startswith("rebase") else pre_head
            _, o2, _ = rr.plain_git("rev-list", "--reverse", f"{lo}..HEAD")
            news = o2.split()
            trace = read_trace(tr)
            run = {"rc": rc, "err": err[-400:] if rc else "", "news": news,
                   "markers": [t["marker"] for t in trace if "marker" in t],
                   "diff_tree_stdin_raw": sum(1 for t in trace if "args" in t and "diff-tree" in t["args"] and "--raw" in t["args"] and "--stdin" in t["args"]),
                   "blame_calls": sum(1 for t in trace if "args" in t and "blame" in t["args"]),
                   "notes": {}, "blame": {}}
            all_files = tracked + ["up.txt", "other/o.txt"]
            for n in news:
                run["notes"][n] = rr.note_text(n)
                rr.plain_git("checkout", "-q", "--detach", n)
                for f in all_files:
                    if rr.exists(f):
                        run["blame"][f"{news.index(n)}:{f}"] = e2e.blame_line_hashes(rr.blame(f))
            runs[name] = run
        # ---- independent facts for the precondition (from the fast twin; commits are shared)
        fast_news = runs["fast"]["news"]
        ai_touched = set()
        for o in origs:
            t = orig_notes.get(o)
            if t:
                pn = e2e.parse_note(t)
                ai_touched |= {p for p, hs in pn["files"].items() if any(hs.values())}
        changed = set()
        for o in origs:
            _, o3, _ = r.plain_git("diff-tree", "--no-commit-id", "--name-only", "-r", "-z", "--root", o)
            changed |= {p for p in o3.split("\0") if p}
        tr_paths = sorted(ai_touched & changed)
        pairs = list(zip(origs, fast_news))
        differing = []
        world_commits = {}
        for i, (o, n) in enumerate(pairs):
            for c in (o, n):
                if c not in world_commits:
                    _, t, _ = r.plain_git("rev-parse", f"{c}^{{tree}}")
                    world_commits[c] = {"id": c, "tree": t.strip(), "files": [[p, b] for p in tr_paths if (b := blob_at(r, c, p))]}
            for p in tr_paths:
                if blob_at(r, o, p) != blob_at(r, n, p):
                    differing.append([i, p])
        rwl = 0
        for o in origs:
            pn = e2e.parse_note(orig_notes[o]) if orig_notes.get(o) else None
            if pn and pn.get("meta"):
                used = {h for hs in pn["files"].values() for h, ls in hs.items() if ls}
                rwl += sum(1 for h in (pn["meta"].get("prompts") or {}) if h not in used)
        obs.update({"ok": True, "records_without_lines": rwl, "origs": origs, "orig_notes": orig_notes, "runs": runs, "tracked": tr_paths,
                    "pairs": pairs, "differing": differing, "world_commits": list(world_commits.values()),
                    "missing_note": [o for o, _ in pairs if not orig_notes.get(o)],
                    "sessions": sorted(sessions), "ncmd": env.ncmd,
                    "ghost": [{f: [[l.text, e2e.short_hash(l.who, "mock_agent") if l.who else None, l.born] for l in ls]
                               for f, ls in g.items()} for g in ghost],
                    "labels": labels, "ghost_base": {f: [f"{f}-base-{i}" for i in range(spec["base_len"])] for f in tracked},
                    "ghost_cum": [sorted(triples(g, lambda l: l.born >= 1)) for g in ghost],
                    "ghost_own": [sorted(triples(g, lambda l, k=k: k and l.born == k)) for k, g in zip(labels, ghost)]})
    return obs


def misattribution_family(fast, slow, obs, k, cum_k, cum_head):
    """known finding slow-path-misattributes-lines-rewritten-later: the shortcut's note is exactly
    the ghost's per-commit note, and every disagreement beyond the cumulative extras lies in a
    file in which a later commit of the range rewrote / deleted an AI line present here."""
    (fa, _), (sa, _) = note_view(fast), note_view(slow)
    ft = {(p, h, l) for (p, h), ls in fa.items() for l in ls}
    st = {(p, h, l) for (p, h), ls in sa.items() for l in ls}
    own = set(map(tuple, obs["ghost_own"][k]))
    if ft != own:
        return False
    later = set().union(*[rewritten_later(obs["ghost"], j) for j in range(k + 1)])
    odd = (ft - st) | (st - ft - cum_k - cum_head)
    return bool(odd) and all(p in later for (p, _, _) in odd)


# ---------------------------------------------------------------- verdicts

def judge(res, obs, driver_reqs):
    spec = obs["spec"]
    kind = spec["kind"]
    key = json.dumps(spec, sort_keys=True)
    if not obs.get("ok"):
        res.count_case(key, nontrivial=False)
        res.tag([f"e2e:{kind}", "e2e:setup-failed"])
        res.broken_tie("e2e scenario setup", {"spec": spec, "error": obs.get("error")})
        return
    fast, slow = obs["runs"]["fast"], obs["runs"]["slow"]
    rebase = kind.startswith("rebase")
    mark = MARK_REBASE if rebase else MARK_CP
    took = mark in fast["markers"]
    tags = [f"e2e:{kind}", f"e2e:path={'shortcut' if took else 'replay'}", f"e2e:commits={len(obs['origs'])}",
            f"e2e:tracked={len(obs['tracked'])}", f"e2e:tool-input-field={bool(obs.get('tool_input'))}",
            f"e2e:record-without-lines={obs.get('records_without_lines', 0) > 0}"]
    wit = {"spec": spec, "pairs": obs["pairs"], "tracked": obs["tracked"], "differing": obs["differing"],
           "missing_note": obs["missing_note"], "markers": fast["markers"]}
    if fast["rc"] != 0 or slow["rc"] != 0 or fast["rc"] != slow["rc"]:
        res.count_case(key, nontrivial=False)
        res.tag(tags + ["e2e:op-failed"])
        if fast["rc"] != slow["rc"]:
            res.oracle_failure("twin-exit-codes-differ", dict(wit, fast=fast["err"], slow=slow["err"]),
                               "the operation's exit status depends on the shortcut switch")
        return
    res.count_case(key)
    counts_equal = len(obs["origs"]) == len(fast["news"])
    pre = bool(obs["tracked"]) and not obs["differing"] and not obs["missing_note"] and bool(obs["pairs"]) and (counts_equal or not rebase)
    tags.append(f"e2e:precondition={'holds' if pre else 'fails'}")
    if obs["differing"]:
        tags.append("e2e:differs=" + ("later-pairs-only" if all(i > 0 for i, _ in obs["differing"]) else "from-first-pair"))
    # the switch must switch
    if mark in slow["markers"]:
        res.oracle_failure("no-fast-path-switch-ignored", wit, "shortcut ran although GIT_AI_VERIF_NO_FAST_PATH=1")
    # path taken vs the independently recomputed precondition
    if took and obs["differing"]:
        res.oracle_failure("shortcut-taken-when-pair-differs", wit, "the shortcut ran although some pair differs on a tracked path")
    if took and obs["missing_note"]:
        res.oracle_failure("shortcut-taken-when-original-lacks-note", wit, "the shortcut ran although an original commit has no note")
    if took and rebase and not counts_equal:
        res.oracle_failure("shortcut-taken-when-counts-differ", wit, "the shortcut ran although the commit counts differ")
    # model prediction of the path + the remapped note texts (resolved after the driver batch)
    if obs["tracked"]:
        driver_reqs.append(({"op": "c15_fast_path", "rebase": rebase, "orig": obs["origs"], "new": fast["news"],
                             "to_process": fast["news"], "tracked": obs["tracked"], "commits": obs["world_commits"],
                             "notes": [[o, t] for o, t in obs["orig_notes"].items() if t]},
                            ("path", took, wit)))
    if took:
        for o, n in obs["pairs"]:
            if obs["orig_notes"].get(o) and fast["notes"].get(n) is not None:
                driver_reqs.append(({"op": "c15_remap", "text": obs["orig_notes"][o], "target": n, "reser": None},
                                    ("remap", fast["notes"][n], dict(wit, original=o, new=n))))
    # ghost reference model of both line sets (Lean perCommitLines / replayLines = the cumulative state cut to the
    # lines the commit adds) vs the two binaries' notes; its domain: the precondition holds
    append_only = obs["ghost"] and not any(rewritten_later(obs["ghost"], j) for j in range(len(obs["ghost"])))
    tags.append(f"e2e:range-append-only={bool(append_only)}")
    if pre and took and obs["ghost"] and len(obs["ghost"]) == len(fast["news"]) == len(slow["news"]):
        tags.append("e2e:line-model=compared")
        gl = lambda g: [{"path": f, "lines": [[l[1], l[2]] for l in ls]} for f, ls in sorted(g.items())]
        for k, g in enumerate(obs["ghost"]):
            def trip(t):
                pn = e2e.parse_note(t) if t else None
                return sorted([p, h, l] for p, hs in (pn["files"].items() if pn else []) for h, ls in hs.items() for l in set(ls))
            driver_reqs.append(({"op": "c15_lines", "k": obs["labels"][k], "tree": gl(g)},
                                ("lines", (trip(fast["notes"].get(fast["news"][k])), trip(slow["notes"].get(slow["news"][k]))),
                                 dict(wit, index=k))))
    else:
        tags.append("e2e:line-model=outside-domain")
    # ---- notes under ≈ and blame equivalence
    if len(fast["news"]) != len(slow["news"]):
        res.oracle_failure("twin-histories-differ", wit, "the rewritten histories differ between the twins")
        res.tag(tags); return
    n_equiv = n_cum = n_mis = 0
    head_cum = set()    # head-state lines of untouched files are no longer emitted (/repo 4fd233ae, efdc0647)
    for k, (nf, ns) in enumerate(zip(fast["news"], slow["news"])):
        tf, ts = fast["notes"].get(nf), slow["notes"].get(ns)
        if tf is None and ts is None:
            continue
        pf = e2e.parse_note(tf) if tf is not None else None
        ps = e2e.parse_note(ts) if ts is not None else None
        # compare with the slow twin's note re-based on the fast twin's commit id
        if pf and ps and ps.get("meta") and ps["meta"].get("base_commit_sha") == ns:
            ps["meta"]["base_commit_sha"] = nf
        w2 = dict(wit, index=k, fast_note=tf, slow_note=ts)
        if equiv(ps, pf, nf):
            n_equiv += 1
            continue
        if not took:
            res.oracle_failure("twin-notes-differ-without-shortcut", w2, "both twins replayed, yet the notes differ")
            continue
        # (the families "replay writes cumulative notes" — O14, repaired in /repo by fb18b9e3 — and "replay credits a
        #  line that a later commit of the range rewrote" — repaired by 13fa6d80 + f7e364fb — are no longer classified:
        #  a return is reported as a violation; `shape` only names what the difference looks like)
        cum_k = set(map(tuple, obs["ghost_cum"][k])) if k < len(obs["ghost_cum"]) else set()
        shape = "other"
        if pf and ps and not pf["errors"] and not ps["errors"]:
            (fa, _), (sa, _) = note_view(pf), note_view(ps)
            ft = {(p, h, l) for (p, h), ls in fa.items() for l in ls}
            st = {(p, h, l) for (p, h), ls in sa.items() for l in ls}
            if ft == st:
                shape = "same lines, metadata (prompt records / versions) differs"
            elif ft <= st and (st - ft) <= cum_k:
                n_cum += 1
                shape = "replayed note = shortcut note + other AI lines of the range (shape of the repaired finding slow-path-cumulative-lines)"
            elif k < len(obs["ghost"]) and misattribution_family(pf, ps, obs, k, cum_k, head_cum):
                n_mis += 1
                shape = "shape of the repaired finding slow-path-misattributes-lines-rewritten-later"
        else:
            shape = "a note is missing or unparsable"
        res.oracle_failure("shortcut-differs-from-replay", dict(w2, why=shape),
                           "the shortcut's note is not ≈ to the replayed note: " + shape)
    tags.append(f"e2e:notes={'misattributed-diff' if n_mis else ('all-equiv' if n_cum == 0 else 'cumulative-diff')}")
    bl_same = True
    for fk, bf in fast["blame"].items():
        bs = slow["blame"].get(fk)
        if bf != bs:
            bl_same = False
            k, f = int(fk.split(":", 1)[0]), fk.split(":", 1)[1]
            w3 = dict(wit, file=fk, fast_blame=bf, slow_blame=bs)
            # the range rewrote an AI line of this file later; the shortcut's blame is the ghost truth from commit k on
            later = set().union(*[rewritten_later(obs["ghost"], j) for j in range(min(k + 1, len(obs["ghost"])))]) if obs["ghost"] else set()
            shape = took and k < len(obs["ghost"]) and f in later and {int(a): b for a, b in bf.items()} == ghost_blame(obs["ghost"], k, f)
            res.oracle_failure("shortcut-blame-differs", dict(w3, repaired_family_shape=bool(shape)),
                               "git-ai blame differs between the shortcut's notes and the replayed notes")
            break
    tags.append(f"e2e:blame={'same' if bl_same else 'differs'}")
    # ghost check of what both twins say (statistic; C02's concern)
    own = [set(map(tuple, x)) for x in obs["ghost_own"]]
    if took and len(own) == len(fast["news"]):
        match = True
        for k, n in enumerate(fast["news"]):
            pn = e2e.parse_note(fast["notes"][n]) if fast["notes"].get(n) else None
            got = {(p, h, l) for p, hs in (pn["files"].items() if pn else []) for h, ls in hs.items() for l in ls}
            if got != own[k]:
                match = False
        tags.append(f"e2e:shortcut-notes-match-ghost={match}")
    res.tag(tags)
    res.sample({"e2e": spec, "path": "shortcut" if took else "replay", "precondition": pre,
                "pairs": len(obs["pairs"]), "tracked": obs["tracked"], "equiv": n_equiv, "cumulative": n_cum}, cap=6)


def resolve_driver(res, driver_reqs):
    if not driver_reqs:
        return
    resp = C.run_driver([r for r, _ in driver_reqs])
    bad_path = bad_remap = bad_lines = n_lines = 0
    first = None
    for (req, (what, observed, wit)), m in zip(driver_reqs, resp):
        if what == "lines":
            n_lines += 1
            ok = sorted(m.get("per_commit", [None])) == observed[0] and sorted(m.get("slow", [None])) == observed[1]
            if not ok:
                bad_lines += 1
                first = first or {"kind": "lines", "model": m, "observed": {"shortcut": observed[0], "replay": observed[1]}, "witness": wit}
        elif what == "path":
            ok = m.get("applies") == observed
            if not ok:
                bad_path += 1
                first = first or {"kind": "path", "model": m.get("applies"), "observed": observed, "witness": wit}
        else:
            ok = m.get("text") == observed and m.get("fast") is True
            if not ok:
                bad_remap += 1
                first = first or {"kind": "remap", "model": m.get("text"), "observed": observed, "witness": wit}
    res.obligation("e2e correspondence: model fastPathApplies = shortcut marker observed", bad_path == 0, "correspondence")
    res.obligation("e2e correspondence: note written by the shortcut = model remapNote(original note, new sha)", bad_remap == 0, "correspondence")
    res.obligation("e2e correspondence: line sets of the shortcut's / the replayed notes = model perCommitLines / replayLines",
                   bad_lines == 0, "correspondence")
    res.extra.setdefault("correspondence", {})["e2e"] = {"compared": len(driver_reqs), "path_disagreements": bad_path,
                                                        "remap_disagreements": bad_remap, "line_sets_compared": n_lines,
                                                        "line_set_disagreements": bad_lines}
    if first:
        res.broken_tie("e2e model-vs-binary", first)


def _attempt(spec):
    try:
        return run_scenario(spec)
    except Exception as e:   # scenario machinery failure is a broken tie, not a pass
        return {"spec": {"kind": spec["kind"], "seed": spec["seed"], "fixed": spec.get("fixed")}, "ok": False, "error": repr(e)}


def run_e2e(res, specs, workers=12):
    t0 = time.time()
    driver_reqs = []
    with concurrent.futures.ThreadPoolExecutor(workers) as ex:
        results = list(ex.map(_attempt, specs))
    # A subprocess timeout (also of the plain system git) under machine load says nothing about the
    # property: such scenarios are re-executed in full, two at a time, and judged like any other;
    # one that times out again is reported as a broken tie.
    retry = [i for i, o in enumerate(results) if not o.get("ok") and "TimeoutExpired" in str(o.get("error"))]
    if retry:
        with concurrent.futures.ThreadPoolExecutor(2) as ex:
            for i, o in zip(retry, ex.map(_attempt, [specs[i] for i in retry])):
                results[i] = o
        res.extra["e2e_retried_after_timeout"] = res.extra.get("e2e_retried_after_timeout", 0) + len(retry)
    for obs in results:
        judge(res, obs, driver_reqs)
    resolve_driver(res, driver_reqs)
    res.extra["e2e_wall_s"] = round(res.extra.get("e2e_wall_s", 0) + time.time() - t0, 1)


def specs_for(seed, n):
    out = []
    for i in range(n):
        kind = KINDS[i % len(KINDS)]
        out.append(gen_spec(kind, f"{seed}-{i}"))
    for i in range(max(2, n // 8)):
        out.append(gen_spec(EXTRA_KINDS[i % len(EXTRA_KINDS)], f"{seed}-x{i}"))
    return out


def corpus_specs():
    out = []
    p = os.path.join(C.VERIF, "corpus", PROP, "e2e.jsonl")
    if os.path.exists(p):
        for line in open(p):
            line = line.strip()
            if not line:
                continue
            j = json.loads(line)
            if j.get("fixed") in FIXED:
                s = dict(FIXED[j["fixed"]]); s["fixed"] = j["fixed"]
                if j.get("kind"):
                    s["kind"] = j["kind"]
                out.append(s)
            elif "kind" in j and "seed" in j:
                out.append(gen_spec(j["kind"], j["seed"]))
    return out


def finish(res):
    sigs = {}
    for v in res.violations:
        src = "e2e" if isinstance(v.get("witness"), dict) and "spec" in v["witness"] else "in-process"
        sigs[f"{src}:{v['sig']}"] = sigs.get(f"{src}:{v['sig']}", 0) + 1
    res.extra["violation_sigs"] = sigs
    if sigs:
        C.log(f"[{PROP}] violation signatures: {sigs}")
    return res.finish()


def run(tier, seed):
    res = C.Result(PROP, tier, seed)
    res.rule = ("in-process: generated note texts (serializer output for logs whose paths / prompt texts / bases contain the "
                "field name, escaped quotes, backslashes before multi-byte chars, \\u escapes; compact JSON, CRLF, colon "
                "whitespace, other key orders, foreign keys, non-string values, truncations, arbitrary text) x targets, sent to "
                "the real try_remap_base_commit_sha_field / remap_note_content_for_target_commit and to the Lean model; "
                "generated diff-tree outputs injected under the real scanner; generated (originals, rewritten, to-process, "
                "tracked) over a scratch repository sent to the real try_fast_path_* and the model. end-to-end: one case = one "
                "generated rebase / cherry-pick history executed twice (shortcut on / off) from identical snapshots; distinct = "
                "distinct scenario spec or request JSON")
    res.trusted = ["Lean 4.33 kernel (axioms: propext, Quot.sound, Classical.choice only)",
                   "harness/src/suites/c15.rs generators and canonicalisation; vlib/props/c15.py scenario generator, independent "
                   "note parser (vlib/e2e.py) and `≈`",
                   "serde_json (metadata text around the base field: shape, escaping and re-serialisation asserted per case, not proved)",
                   "git (diff-tree --stdin --raw -z output for flat trees reference-modelled; compared byte-for-byte per case)",
                   "UTF-8: the Rust scanners compare ASCII bytes only, so byte offsets are char boundaries (char-level model)"]
    res.assumptions = ["shortcut_equiv_replay: full replay is the modelled note_for_rewritten_commit over a ghost labelling of the "
                       "repository (blob -> lines with provenance; git diff -U0 added lines = lines born at the commit; the replay's "
                       "running state = every AI line of the range present): tied to both binaries' notes by the twin runs, not "
                       "proved of the Rust replay (attribution tracker, content matching). Hypotheses are about the input only: the "
                       "originals carry the notes the post-commit path wrote (lines the commit added, its sessions' records), "
                       "in serde's shape; tracked paths distinct",
                       "commit ids need no JSON escaping (jsonEscape c = c); foreign notes with a key ending in \"base_commit_sha "
                       "before the real field are outside the serializer's shape (witnessed)"]
    C.phase_proofs(res, PROP, THEOREMS)
    ok, out = C.build_harness()
    if not ok:
        res.obligation("build harness against the repository working tree", False, "build")
        res.broken_tie("harness build", out[-3000:])
        return finish(res)
    ok, out = C.build_git_ai()
    if not ok:
        res.obligation("build git-ai against the repository working tree", False, "build")
        res.broken_tie("git-ai build", out[-3000:])
        return finish(res)
    quick = tier == "quick"
    corpus = os.path.join(C.VERIF, "corpus", PROP, "cases.jsonl")
    bad1, _ = C.phase_suite(res, "c15", seed, 4000 if quick else 100000, corpus)
    bad2, _ = C.phase_suite(res, "c15repo", seed, 900 if quick else 9000, None)
    specs = corpus_specs() + specs_for(seed, 26 if quick else 480)
    run_e2e(res, specs)
    res.obligation("e2e twin runs executed", res.tags.get("e2e:setup-failed", 0) == 0, "correspondence")
    if (bad1 or bad2 or res.broken) and not res.violations:
        # a tie broke and no oracle has failed yet: search for a concrete failing input
        for s in range(seed + 1000, seed + 1004):
            C.phase_suite(res, "c15", s, 20000, None, name=f"search:c15:{s}")
            if res.violations:
                break
            C.phase_suite(res, "c15repo", s, 3000, None, name=f"search:c15repo:{s}")
            if res.violations:
                break
        if not res.violations:
            run_e2e(res, specs_for(seed + 7777, 72))
        res.extra["search"] = ("4 extra seeds x (20000 remap + 3000 scratch-repository cases) and 72 extra twin scenarios, "
                               "all oracles evaluated on the implementation")
    return finish(res)
