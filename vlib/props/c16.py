"""C16 — the attribution tracker is total, bounded and conservative (DESIGN §8 C16)."""
import os
from vlib import common as C
from vlib.props import bridge_util as B

PROP = "C16"
THEOREMS = [
    "GitAi.Tracker.no_panic",
    "GitAi.Tracker.witness_bad_insertion_index",
    "GitAi.Tracker.in_bounds",
    "GitAi.Tracker.on_boundaries",
    "GitAi.Tracker.witness_target_off_boundary",
    "GitAi.Tracker.unchanged_keeps_author_multiset",
    "GitAi.Tracker.unchanged_keeps_author",
    "GitAi.Tracker.witness_src_outside_deletion",
    "GitAi.Tracker.new_text_is_reporters",
    "GitAi.Tracker.witness_whitespace_inherits",
    "GitAi.Tracker.whitespace_reformat_keeps_lines_partial",
    "GitAi.Tracker.witness_reformat_split_line",
    "GitAi.Tracker.line_char_roundtrip",
    "GitAi.Tracker.witness_roundtrip_human",
    "GitAi.Tracker.witness_roundtrip_overlap",
    "GitAi.Tracker.line_winner_has_non_ws",
    "GitAi.Tracker.whitespace_only_author_never_wins",
    "GitAi.Tracker.witness_reindent_below_ai_line",
    "GitAi.Tracker.witness_marker_wins_line",
    "GitAi.Tracker.identity_update",
    "GitAi.Tracker.identity_keeps_lines",
    "GitAi.Tracker.identity_keeps_cover",
    "GitAi.Tracker.no_panic_all",
    "GitAi.Tracker.in_bounds_all",
    "GitAi.Tracker.on_boundaries_all",
    "GitAi.Tracker.witness_identity_out_of_range_order",
    "GitAi.Tracker.witness_identity_inverted",
    "GitAi.Tracker.witness_identity_zero_length",
    "GitAi.Tracker.witness_identity_ts_tie",
    "GitAi.Tracker.witness_identity_overrode_order",
]


def phase_linestep(res, seed, n):
    """bridge tie: real checkpoint pipeline vs Lean LineStep vs Sys.checkpointAttr (broken tie name correspondence:linestep)"""
    corpus = os.path.join(C.VERIF, "corpus", "C16", "linestep.jsonl")
    before = dict(res.tags)
    bad = 0
    chunk = 40000
    k = 0
    while k * chunk < n:
        b, _ = C.phase_suite(res, "c16ls", seed + 104729 * k, min(chunk, n - k * chunk), corpus if k == 0 else None,
                             name="correspondence:linestep" if n <= chunk else f"correspondence:linestep:{k}")
        bad += b
        k += 1
        if res.violations:
            break
    # the prediction is claimed for the alignment the generator intends: the real diff must choose it (almost) always
    good = res.tags.get("alignment:as-intended", 0) - before.get("alignment:as-intended", 0)
    other = res.tags.get("alignment:other", 0) - before.get("alignment:other", 0)
    # (cases outside the claim — text appended after an unterminated last line, blank unterminated insert — are
    #  tagged alignment:not-claimed by the suite and do not count)
    ok = good > 0 and other * 50 <= good
    res.obligation("linestep generator: the real line diff chooses the intended alignment in >= 98% of the cases", ok, "distribution")
    if not ok:
        res.broken_tie("correspondence:linestep", f"intended alignment chosen in {good} of {good + other} cases")
        bad += 1
    return bad


def run(tier, seed):
    # the tracker prints benchmark lines to stderr in debug builds unless GIT_AI_DEBUG=0
    os.environ["GIT_AI_DEBUG"] = "0"
    res = C.Result(PROP, tier, seed)
    res.rule = ("in-process: text pairs built by structured edits (insert/delete/replace/intra-line/re-indent/spacing/"
                "blank-line/move of >=3-line blocks with optional re-indent/append/clear/identity, CRLF<->LF rewrite, "
                "final-newline flip) of generated code-like texts (LF/CRLF/mixed, 2-4-byte and combining characters, "
                "repeated lines, occasional >32 KiB lines) with prior attribution sets of every shape (none, line-aligned, "
                "boundary-aligned overlapping, cover-all, chained from a previous real update, malformed: unsorted/"
                "overlapping/out-of-range/zero-length/inverted/off-boundary/huge/duplicate); synthetic valid and invalid "
                "segment lists and move mappings; line<->char projection inputs. A case is one request sent to both the "
                "Rust function and the Lean model; distinct = distinct request JSON. "
                "Suite c16ls (correspondence:linestep): the checkpoint pipeline of make_entry_for_file (line attributions -> char "
                "attributions -> human fill -> update_attributions -> line attributions) on line-structured edits: 0-16 previous "
                "lines with per-line authors (human / 3 AI sessions, single-line entries or INITIAL-like runs), lines kept / deleted / "
                "freshly inserted without reordering (identity, append, replace-all, mixed; replace hunks; blank and whitespace-only "
                "lines; LF/CRLF/mixed; multi-byte tokens), every line with content and at least one token no other line has, so the "
                "real line diff has one minimal alignment; in a third of the cases the previous and/or the current content has no final "
                "newline (LineStep.lineStepE; oracle eof_line_rule with its own signature; the shapes eofPlain excludes are compared on the "
                "model's segments only); per case the real per-line authors (real diff, and the real transform on "
                "line-granular segments) are compared with Lean LineStep.lineStep and with Sys.checkpointAttr on the induced ids")
    res.trusted = ["Lean 4.33 kernel (axioms: propext, Quot.sound, Classical.choice only)",
                   "harness/src/suites/c16.rs generators, contract checks, oracles and canonicalisation",
                   "imara-diff, the tokenizer and the move detector are parameters of the model: their outputs are "
                   "taken from the real code through verif_hooks and contract-checked per case, not proved",
                   "Rust str invariants (a &str is valid UTF-8): byte-level whitespace/boundary predicates of the "
                   "model agree with char-level ones on valid UTF-8",
                   "bridge (Props/Bridge.lean): the theorems speak of line-granular segments; that the real diff's token-level "
                   "refinement of changed hunks gives the same per-line result is tied by the c16ls correspondence, not proved"]
    res.assumptions = ["segment contract (Equal+Delete = old, Equal+Insert = new, segment ends on char boundaries, "
                       "non-whitespace inserts are substantive) and move contract (indices in range, ranges inside "
                       "their deletion/insertion on char boundaries) hold of the real diff: checked on every case",
                       "usize/u32/u128 modelled as Nat (texts below 2^32 lines / 2^64 bytes)",
                       "panics inside the unmodelled diff/tokenizer/move detector are reachable only by the harness "
                       "(sig panic:compute-diffs), not by the theorem"]
    C.phase_proofs(res, PROP, THEOREMS)
    B.phase_bridge(res)
    ok, out = C.build_harness()
    if not ok:
        res.obligation("build harness against /repo working tree", False, "build")
        res.broken_tie("harness build", out[-3000:])
        return res.finish()
    n = 16000 if tier == "quick" else 600000
    corpus = os.path.join(C.VERIF, "corpus", "C16", "cases.jsonl")
    if tier == "quick":
        bad, newfail = C.phase_suite(res, "c16", seed, n, corpus)
    else:
        bad = 0
        chunk = 40000
        for k in range(n // chunk):
            b, _ = C.phase_suite(res, "c16", seed + 7919 * k, chunk, corpus if k == 0 else None,
                                 name=f"correspondence:c16:{k}")
            bad += b
            if res.violations:
                break
    bad += phase_linestep(res, seed, 8000 if tier == "quick" else 200000)
    if (bad or res.broken) and not res.violations:
        # broken tie: search harder for a concrete failing input on the implementation
        for s in range(seed + 1000, seed + 1006):
            C.phase_suite(res, "c16", s, 20000, None, name=f"search:c16:{s}")
            if res.violations:
                break
            C.phase_suite(res, "c16ls", s, 20000, None, name=f"search:c16ls:{s}")
            if res.violations:
                break
        res.extra["search"] = ("6 extra seeds x (20000 cases of the c16 generators + 20000 of the line-level generator), "
                               "all oracles evaluated on the implementation")
    return res.finish()
