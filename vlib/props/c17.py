"""C17 — authorship logs survive a write/read round trip unchanged (DESIGN §8 C17)."""
import os
from vlib import common as C

PROP = "C17"
THEOREMS = [
    "GitAi.NoteFormat.roundtrip",
    "GitAi.NoteFormat.normalise_keeps_ranges",
    "GitAi.NoteFormat.grammar",
    "GitAi.NoteFormat.sortByStart_ascending",
    "GitAi.NoteFormat.no_divider_rejected",
    "GitAi.NoteFormat.parse_no_panic",
    "GitAi.NoteFormat.witness_newline_path",
]


def run(tier, seed):
    res = C.Result(PROP, tier, seed)
    res.rule = ("in-process: generated AuthorshipLog values (paths over a git-legal alphabet incl. divider, quotes, "
                "NBSP/U+2028, CR, LF; hex and adversarial hashes; range multisets with duplicates/overlaps/0/u32::MAX; "
                "adversarial prompt texts), arbitrary/mutated note texts, and range-list texts; a case is the request "
                "sent to both the Rust function and the Lean model; distinct = distinct request JSON")
    res.trusted = ["Lean 4.33 kernel (axioms: propext, Quot.sound, Classical.choice only)",
                   "harness/src/suites/c17.rs generators and canonicalisation",
                   "serde_json (metadata block opaque in the model; pretty-printer facts asserted per case)"]
    res.assumptions = ["metadata JSON is opaque text J with: no raw CR, no trailing LF (asserted on every generated log)",
                       "u32 modelled as Nat with explicit < 2^32 guards"]
    C.phase_proofs(res, PROP, THEOREMS)
    ok, out = C.build_harness()
    if not ok:
        res.obligation("build harness against /repo working tree", False, "build")
        res.broken_tie("harness build", out[-3000:])
        return res.finish()
    n = 6000 if tier == "quick" else 200000
    corpus = os.path.join(C.VERIF, "corpus", "C17", "cases.jsonl")
    bad, newfail = C.phase_suite(res, "c17", seed, n, corpus)
    if (bad or res.broken) and not res.violations:
        # broken tie: search harder for a concrete failing input on the implementation
        for s in range(seed + 1000, seed + 1006):
            C.phase_suite(res, "c17", s, 20000, None, name=f"search:c17:{s}")
            if res.violations:
                break
        res.extra["search"] = "6 extra seeds x 20000 cases of the c17 generators, all oracles evaluated on the implementation"
    return res.finish()
