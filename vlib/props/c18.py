"""C18 — the proxy hands git exactly the arguments the user typed (DESIGN §8 C18)."""
import json, os, shlex, subprocess, sys
from vlib import common as C

PROP = "C18"
NS = "GitAi.C18."
THEOREMS = [NS + t for t in [
    "identity_without_meta",
    "identity_no_meta_token",
    "parse_no_panic",
    "documented_normalisation_partial",
    "documented_normalisation_full_is_false",
    "witness_path_query_dropped",
    "witness_option_after_version",
    "witness_version_drops_words",
    "witness_help_drops_later_tokens",
    "command_position",
    "command_position_exact",
    "grammar_tables_agree",
    "word_is_not_an_option",
    "witness_shallow_file",
    "alias_tokens_vs_gitSplit",
    "alias_tokens_eq_gitSplit",
    "alias_tokens_none_iff",
    "witness_trailing_backslash",
    "witness_edge_whitespace",
    "resolve_terminates",
    "resolve_none_iff",
    "resolve_outcomes",
    "alias_step_in_place",
    "alias_agrees_partial",
    "witness_alias_shadows_command",
]]
STANDIN = os.path.join(C.VERIF, "vlib", "props", "c18_git_standin.sh")
CORPUS = os.path.join(C.VERIF, "corpus", "C18", "cases.jsonl")


# ---------------------------------------------------------------- extraction

def phase_extract(res):
    """Regenerate Extracted/CliTables.lean from the working tree (before `lake build`)."""
    rc, out, err = C.run([sys.executable, os.path.join(C.VERIF, "extract", "cli_tables.py")], cwd=C.VERIF)
    ok = rc == 0
    res.obligation("extract CliTables from src/git/cli_parser.rs", ok, "extraction")
    if not ok:
        res.broken_tie("extract CliTables from src/git/cli_parser.rs", (out + err)[-2000:])
    return ok


# ---------------------------------------------------------------- end to end: recording stand-in
# Independent third statement of git's grammar (git.c of 2.39), used only to judge what the
# recording stand-in received.

NO_VALUE = {"-p", "--paginate", "-P", "--no-pager", "--no-replace-objects", "--bare", "--literal-pathspecs",
            "--glob-pathspecs", "--noglob-pathspecs", "--icase-pathspecs", "--no-optional-locks"}
DETACHED = {"--git-dir", "--namespace", "--work-tree", "--super-prefix", "-c", "--config-env", "-C", "--shallow-file"}
ATTACHED = ("--git-dir=", "--namespace=", "--work-tree=", "--super-prefix=", "--config-env=")
QUERY = {"--html-path", "--man-path", "--info-path"}
HV = {"--help", "-h", "--version", "-v"}


def git_scan(a):
    i = 0
    while i < len(a):
        t = a[i]
        if not t.startswith("-"):
            return "command", i
        if t in HV:
            return "help-version", i
        if t.startswith("--exec-path"):
            if t[len("--exec-path"):].startswith("="):
                i += 1
                continue
            return "exits", i
        if t in QUERY:
            return "exits", i
        if t in NO_VALUE:
            i += 1
            continue
        if t in DETACHED:
            if i + 1 < len(a):
                i += 2
                continue
            return "usage", i
        if t.startswith(ATTACHED):
            i += 1
            continue
        if t.startswith("--list-cmds="):
            return "exits", i
        return "usage", i
    return "no-command", len(a)


def git_normalise(a):
    kind, at = git_scan(a)
    if kind == "help-version":
        return a[:at] + ["version" if a[at] in ("--version", "-v") else "help"] + a[at + 1:]
    return list(a)


def top_level_option_like(t):
    return (t == "--" or t in HV or t in QUERY or t in NO_VALUE or t in DETACHED or t.startswith(ATTACHED)
            or t in ("--exec-path", "--no-lazy-fetch", "--no-advice", "--list-cmds", "--attr-source")
            or t.startswith(("--exec-path=", "--attr-source=", "--list-cmds=", "-c", "-C")))


def argv_verdict(user, real):
    """(ok, sig) — same families as harness/src/suites/c18.rs"""
    want = git_normalise(user)
    if real == want or real == user:
        return True, "argv:identity"
    kind, at = git_scan(user)
    if kind in ("exits", "usage"):
        if len(real) > at and real[:at + 1] == user[:at + 1]:
            return True, "argv:same-up-to-git-stop"
        return False, ("argv:path-query-option-not-kept-in-place" if user[at] in QUERY else "argv:identity")
    if kind == "help-version":
        is_version = user[at] in ("--version", "-v")
        tail = user[at + 1:]
        if tail and top_level_option_like(tail[0]):
            return False, "argv:help-version:more-top-level-options-follow"
        if is_version and any(not t.startswith("-") for t in tail):
            return False, "argv:version:non-dash-tail-dropped"
        if not is_version and tail and tail[0].startswith("-") and any(t in HV for t in tail):
            return False, "argv:help:later-help-version-tokens-dropped"
        return False, "argv:help-version-rewrite"
    return False, "argv:identity"


def read_argv_log(path):
    try:
        data = open(path, "rb").read().decode("utf-8", "replace")
    except FileNotFoundError:
        return []
    fields = data.split("\0")
    recs, i = [], 0
    while i < len(fields) - 1:
        try:
            n = int(fields[i])
        except ValueError:
            break
        recs.append(fields[i + 1:i + 1 + n])
        i += 1 + n
    return recs


def git_own_expansion(repo, argv):
    """What plain git executes for `argv` according to GIT_TRACE (None when it runs no command)."""
    rc, out, err = repo.plain_git(*argv, env={"GIT_TRACE": "1", "GIT_PAGER": "cat"})
    final = None
    for line in err.split("\n"):
        for marker in ("trace: built-in: git ", "trace: exec: git-", "trace: alias expansion: "):
            k = line.find(marker)
            if k < 0:
                continue
            rest = line[k + len(marker):]
            if marker.startswith("trace: alias"):
                continue
            try:
                toks = shlex.split(rest)
            except ValueError:
                continue
            if marker.startswith("trace: built-in") and final is None:
                final = toks
    return final


E2E_ALIASES = [
    ("st", "status --short"), ("lg", "log --oneline"), ("l", "lg -3"), ("cm", "commit --allow-empty -m ''"),
    ("sh", "!echo shell-alias"), ("a", "b"), ("b", "a"), ("q", "log '--format=%H %s'"), ("pl", "-p log -1"),
    ("bs", "rev-parse\\"),
]
# configured only for the last invocations: an alias named like a git command (git ignores it)
E2E_SHADOW = ("status", "log --oneline")
E2E_SHADOW_ARGVS = [["status"], ["-c", "a=b", "status", "--short"]]
E2E_FIXED = [
    ["status"], ["-c", "a=b", "status", "--short"], ["-C", ".", "log", "-1"], ["--no-pager", "log", "--oneline"],
    ["-p", "rev-parse", "HEAD"], ["--git-dir=.git", "rev-parse", "--git-dir"], ["--literal-pathspecs", "ls-files", "--", "f.txt"],
    ["--version"], ["-v"], ["--version", "--build-options"], ["--help"], ["-h"], ["-c", "x=y", "--version"],
    ["--html-path"], ["--exec-path"], ["--bogus", "status"], ["--", "status"], ["-c", "status", "rev-parse", "HEAD"],
    ["rev-parse", "--", "-h"], ["log", "--format=%H %s", "-1"], ["log", "-1", "--", "f.txt"], ["diff", "--", ""],
    ["st"], ["lg", "-1"], ["l"], ["cm"], ["sh"], ["a"], ["q", "-1"], ["pl"], ["-c", "a=b", "st"], ["--no-pager", "l"],
    ["-C", ".", "-c", "core.pager=cat", "lg", "-2"], ["é"], ["commit", "--allow-empty", "-m", ""],
    # known-finding witnesses
    ["--html-path", "status", "--short"], ["--version", "-p"], ["--version", "status"], ["--help", "-a", "--version"],
    ["bs"], ["--", "st"], ["--", "status"], ["--", "--", "status"],
]


def e2e_argvs(seed, n):
    import random
    rng = random.Random(seed)
    globs = [["-c", "a=b"], ["-c", "user.name=x y"], ["-C", "."], ["--no-pager"], ["-p"], ["--literal-pathspecs"],
             ["--git-dir=.git"], ["--no-replace-objects"], ["-c", "core.quotePath=false"], ["--no-optional-locks"]]
    cmds = [["status", "--short"], ["log", "--oneline", "-2"], ["rev-parse", "HEAD"], ["ls-files"], ["diff", "--stat"],
            ["show", "-s", "--format=%s"], ["st"], ["lg", "-1"], ["l"], ["q", "-1"], ["branch", "--list"],
            ["log", "-1", "--", "f.txt"], ["status", "--", ""], ["rev-parse", "--", "--help"], ["version"], ["sh", "x"]]
    out = []
    for _ in range(n):
        a = []
        for _ in range(rng.randint(0, 3)):
            a += rng.choice(globs)
        if rng.random() < 0.08:
            a.append(rng.choice(["--version", "-v", "--help", "-h"]))
        a += rng.choice(cmds)
        out.append(a)
    return out


def phase_e2e(res, seed, n):
    """The binary built from the working tree, configured with the recording stand-in as its git:
    the argv the stand-in receives is compared with the user's argv (git's documented conversion and
    git's own alias expansion, taken from GIT_TRACE of plain git, being the only accepted changes)."""
    name = "e2e:recording-git-stand-in"
    from vlib import e2e
    ok, out = C.build_git_ai()
    if not ok:
        res.obligation("build git-ai from the working tree", False, "build")
        res.broken_tie("build git-ai from the working tree", out[-2000:])
        return
    try:
        builtins = set(subprocess.run([e2e.REAL_GIT, "--list-cmds=main,others"], capture_output=True, text=True).stdout.split())
        ran = failed = 0
        with e2e.Env() as env:
            os.makedirs(os.path.join(env.home, ".git-ai"), exist_ok=True)
            json.dump({"git_path": STANDIN, "telemetry_oss_disabled": True, "disable_version_checks": True,
                       "disable_auto_updates": True}, open(os.path.join(env.home, ".git-ai", "config.json"), "w"))
            r = env.repo("r")
            r.write("f.txt", "a\n")
            r.plain_git("add", "-A"); r.plain_git("commit", "-q", "-m", "base")
            for k, v in E2E_ALIASES:
                r.plain_git("config", f"alias.{k}", v)
            alias_names = {k for k, _ in E2E_ALIASES}
            logp = os.path.join(env.root, "argv.log")
            runs = [(u, False) for u in E2E_FIXED + e2e_argvs(seed, n)] + [(u, True) for u in E2E_SHADOW_ARGVS]
            shadow_set = False
            for user, shadow in runs:
                if shadow and not shadow_set:
                    r.plain_git("config", f"alias.{E2E_SHADOW[0]}", E2E_SHADOW[1])
                    alias_names.add(E2E_SHADOW[0])
                    shadow_set = True
                if os.path.exists(logp):
                    os.unlink(logp)
                r.git(*user, env={"VERIF_ARGV_LOG": logp, "VERIF_REAL_GIT": e2e.REAL_GIT, "GIT_PAGER": "cat"})
                recs = read_argv_log(logp)
                ran += 1
                tags = ["e2e:argv"]
                if not recs:
                    res.tag(tags + ["e2e:no-proxied-call"])
                    res.oracle_failure("e2e:no-git-invocation", {"user": user}, what="the proxy did not run git at all")
                    failed += 1
                    continue
                got = recs[0]
                if got[:1] == ["-c"] and len(got) > 1 and got[1].startswith("core.hooksPath=") and user[:2] != got[:2]:
                    got = got[2:]          # managed-hooks mode injects this pair
                ok1, sig = argv_verdict(user, got)
                kind, at = git_scan(user)
                uses_alias = kind == "command" and user[at] in alias_names
                if not ok1 and uses_alias:
                    # accepted alternative: git's own expansion in place of the alias word (the
                    # alias's leading options may stay in front of the command: git applies them)
                    if user[at] in builtins:
                        sig = "alias:shadows-git-command"
                    else:
                        exp = git_own_expansion(r, user)
                        if exp is not None and got[:at] == user[:at] and got[len(got) - len(exp):] == exp \
                                and all(t.startswith("-") for t in got[at:len(got) - len(exp)]):
                            ok1 = True
                        elif any(k == user[at] and v.endswith("\\") for k, v in E2E_ALIASES):
                            sig = "alias:trailing-backslash-accepted"
                        else:
                            sig = "alias:expansion-differs"
                    tags.append("e2e:alias")
                res.tag(tags + [f"e2e:git-scan={kind}"])
                res.count_case("e2e " + json.dumps(user, ensure_ascii=False))
                res.tags["oracle:e2e_argv_at_stand_in"] = res.tags.get("oracle:e2e_argv_at_stand_in", 0) + 1
                if not ok1:
                    failed += 1
                    res.oracle_failure(sig, {"user": user, "git_received": got, "suite": "e2e"},
                                       what="argv received by the recording git stand-in differs from the user's argv")
        res.obligation(name, ran > 0, "correspondence")
        res.extra.setdefault("correspondence", {})["e2e"] = {"invocations": ran, "argv_deviations": failed}
        res.sample({"suite": "e2e", "req": {"user_argv": E2E_FIXED[1]}, "impl": "argv logged by vlib/props/c18_git_standin.sh"})
    except Exception as e:  # the runner itself broke: a broken tie, not a pass
        res.obligation(name, False, "correspondence")
        res.broken_tie(name, repr(e)[:1500])


# ---------------------------------------------------------------- the check

def run(tier, seed):
    res = C.Result(PROP, tier, seed)
    res.rule = ("in-process: argument vectors generated over git's global options (attached and detached values, -c k=v, "
                "-C dir, --git-dir=…, --exec-path[=…], --namespace, sticky -cX/-CX, options of newer gits, --shallow-file, "
                "empty attached values), meta options, '--', unknown dash options, empty strings, unicode, subcommands, "
                "flags and pathspecs — 55% clean vectors, 20% with meta tokens, 13% with an unknown dash option, 12% token "
                "soup; alias values (templates and random compositions of quotes, escapes, git and non-git whitespace, '!'); "
                "alias tables (recursive, quoted, shell, cyclic, empty quoted tokens, trailing backslash, names of git "
                "commands) written to a scratch repository's config and resolved by the real resolve_alias_impl; "
                "is_flag_with_value over its table and near misses. A case is the request sent to both the Rust function and "
                "the Lean model; distinct = distinct request JSON. end-to-end: the binary with a recording git stand-in as "
                "git_path; a case is one proxied invocation")
    res.trusted = ["Lean 4.33 kernel (axioms: propext, Quot.sound, Classical.choice only)",
                   "extract/cli_tables.py (cross-checked by the correspondence of every parse case)",
                   "harness/src/suites/c18.rs generators, canonicalisation and its independent git reference "
                   "(handle_options, split_cmdline, alias loop written from git 2.39.5's git.c / alias.c)",
                   "Model/GitRef.lean: reference model of git's grammar, help/version conversion, split_cmdline and "
                   "alias loop (kernel model; validated against the installed git by the recording stand-in and GIT_TRACE)",
                   "gix-config value parsing (the alias lookup is a parameter of the model; the harness passes what "
                   "config_get_str returned)"]
    res.assumptions = ["config lookup modelled as a function command -> optional value (errors are 'no alias')",
                       "git builtins/externals shadowing aliases are outside git-ai's model (known finding alias:shadows-git-command)",
                       "in_single/in_double never both set (one three-valued field in the model; checked by correspondence)"]
    extracted = phase_extract(res)
    C.phase_proofs(res, PROP, THEOREMS)
    private = [use_private_copy("DRIVER_BIN", "lake", "driver")]
    try:
        return run_phases(res, tier, seed, extracted, private)
    finally:
        for f in private:
            if f and os.path.exists(f):
                os.unlink(f)


def use_private_copy(attr, lock, stem):
    """Other checks rebuild the shared driver / harness binaries while this one runs (the file is
    replaced); work on a copy taken under the builder's lock."""
    import shutil
    dst = os.path.join(C.BUILD, f"{stem}-c18-{os.getpid()}")
    try:
        with C.Lock(lock):
            shutil.copy2(getattr(C, attr), dst)
        setattr(C, attr, dst)
        return dst
    except OSError:
        return None


def run_phases(res, tier, seed, extracted, private):
    ok, out = C.build_harness()
    if not ok:
        res.obligation("build harness against the working tree", False, "build")
        res.broken_tie("harness build", out[-3000:])
        return res.finish()
    private.append(use_private_copy("HARNESS_BIN", "cargo-harness" + getattr(C, "_ALT", ""), "harness"))
    if tier == "quick":
        bad, newfail = C.phase_suite(res, "c18", seed, 30000, CORPUS)
    else:
        # 20 x 100 000 cases, one seed each (a suite's cases are held in memory while compared)
        bad, newfail = C.phase_suite(res, "c18", seed, 100000, CORPUS)
        for k in range(1, 20):
            if res.violations:
                break
            b, f = C.phase_suite(res, "c18", seed * 1000 + k, 100000, None, name=f"correspondence:c18:chunk{k}")
            bad += b
            newfail += f
    phase_e2e(res, seed, 40 if tier == "quick" else 1500)
    if (bad or res.broken or not extracted) and not res.violations:
        # broken tie: search harder for a concrete failing input on the implementation
        for s in range(seed + 1000, seed + 1006):
            C.phase_suite(res, "c18", s, 60000, None, name=f"search:c18:{s}")
            if res.violations:
                break
        res.extra["search"] = ("6 extra seeds x 60000 cases of the c18 generators (argv, alias values, alias tables), all "
                               "oracles evaluated on the implementation against the independent git reference")
    return res.finish()
