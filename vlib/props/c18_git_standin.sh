#!/bin/sh
# Recording git stand-in for C18 (configured as git-ai's `git_path`): logs the argv of the
# proxied invocation (the only one git-ai spawns with GITAI_SKIP_MANAGED_HOOKS=1 and without
# its internal-call marker) as NUL-separated fields "<argc>\0arg1\0…", then runs the real git.
if [ "$GITAI_SKIP_MANAGED_HOOKS" = "1" ] && [ -n "$VERIF_ARGV_LOG" ]; then
  printf '%s\0' "$#" "$@" >> "$VERIF_ARGV_LOG"
fi
exec "${VERIF_REAL_GIT:-/usr/bin/git}" "$@"
