"""C19 — commit statistics add up and agree with the note and the diff (DESIGN §8 C19)."""
import json, os
from vlib import common as C

PROP = "C19"
THEOREMS = [
    "GitAi.Stats.overlap_counts",
    "GitAi.Stats.partitionPoint_in_bounds",
    "GitAi.Stats.sortDedup_ok",
    "GitAi.Stats.accepted_is_intersection",
    "GitAi.Stats.accepted_le_added",
    "GitAi.Stats.witness_double_count",
    "GitAi.Stats.witness_duplicate_file",
    "GitAi.Stats.identities",
    "GitAi.Stats.ai_additions_fits",
    "GitAi.Stats.numstat_totals",
    "GitAi.Stats.gitQuote_no_tab_newline",
    "GitAi.Stats.unescape_inverts_gitQuote",
    "GitAi.Stats.per_tool_accepted_accounting",
    "GitAi.Stats.per_tool_accepted_sum_iff",
    "GitAi.Stats.per_tool_accepted_sum",
    "GitAi.Stats.witness_missing_prompt",
    "GitAi.Stats.per_tool_sums",
    "GitAi.Stats.per_tool_ai_additions_le_added",
    "GitAi.Stats.commit_identities",
    "GitAi.Stats.root_commit_identities",
    "GitAi.Stats.merge_accepted_zero",
    "GitAi.Stats.merge_commit_identities",
]


def phase_e2e(res, seed, n_hist, n_commits, name="e2e"):
    """Generated histories through the real binary; oracles on `git-ai stats --json` vs git vs the
    raw note; the Lean model of stats_for_commit_stats on the same inputs."""
    from vlib.props import c19_util as U
    try:
        runs = U.run_histories(seed, n_hist, n_commits)
    except Exception as e:  # the runner itself broke: that is a broken tie, not a pass
        res.obligation(f"{name}: histories ran", False, "correspondence")
        res.broken_tie(f"{name}: histories ran", repr(e)[:1500])
        return 0
    reqs, newfail, commits = [], 0, 0
    skipped = [r for r in runs if r.get("skipped")]
    # the runner must have examined (nearly) all histories; a few lost to a hung subprocess under
    # load are recorded, more than 10 % is a broken tie
    res.obligation(f"{name}: histories ran", len(skipped) * 10 <= len(runs), "correspondence")
    if len(skipped) * 10 > len(runs):
        res.broken_tie(f"{name}: histories ran", {"skipped": len(skipped), "of": len(runs), "first": skipped[0]["skipped"]})
    if skipped:
        res.extra.setdefault("e2e_skipped", {})[name] = {"count": len(skipped), "first": skipped[0]["skipped"]}
    for run in runs:
        commits += run["commits"]
        res.tag(["e2e:" + t for t in run["tags"]])
        for sig, w in run["fails"]:
            res.tags["oracle:" + sig] = res.tags.get("oracle:" + sig, 0) + 1
            if res.oracle_failure(sig, w, what=f"{sig} on a commit of a generated history (git-ai stats --json vs git numstat vs note)"):
                newfail += 1
        reqs.extend(run["reqs"])
    for req, imp, sha in reqs:
        res.count_case(json.dumps(req, sort_keys=True, ensure_ascii=False))
    bad = []
    if reqs:
        resp = C.run_driver([q[0] for q in reqs])
        bad = [(q, m) for q, m in zip(reqs, resp) if "driver_error" in m or not C.subset_eq(q[1], m)]
        res.sample({"suite": "e2e", "req": C.trunc(reqs[0][0]), "impl": C.trunc(reqs[0][1])})
    ob = f"correspondence:{name}:stats_for_commit_stats"
    res.obligation(ob, bool(reqs) and not bad, "correspondence")
    if not reqs:
        res.broken_tie(ob, "no commit could be examined")
    if bad:
        q, m = bad[0]
        res.broken_tie(ob, {"disagreements": len(bad), "of": len(reqs), "first": {"sha": q[2], "req": q[0], "impl": q[1], "model": m}})
    res.extra.setdefault("correspondence", {})[name] = {"histories": len(runs), "commits": commits, "compared": len(reqs),
                                                         "disagreements": len(bad), "git_commands": sum(r["cmds"] for r in runs)}
    return newfail


def run(tier, seed):
    res = C.Result(PROP, tier, seed)
    res.rule = ("in-process: generated notes (1-5 sessions per file; disjoint, adjacent, overlapping and duplicate ranges; "
                "duplicate file attestations; missing prompt records), added-line maps (sorted, deduplicated, empty, extreme "
                "values), stats_from_authorship_log inputs (overriden_lines small/large/u32::MAX, accepted <,=,> added, per-tool "
                "splits consistent and not), numstat listings fed to the real get_git_diff_stats through a stand-in git "
                "(binary -/-, C-quoted paths with tabs/non-ASCII, rename shapes, ignored files, malformed lines, overflow), "
                "C-quoted path texts; a case is the request sent to both the Rust function and the Lean model; distinct = "
                "distinct request JSON. end-to-end: every commit of generated histories (root, merge, binary, ignored/lock "
                "files, quoted paths, renames, several AI sessions and tools, human overrides) — a case is the st_for_commit "
                "request built from git's numstat, the raw note and the diff hunks of that commit")
    res.trusted = ["Lean 4.33 kernel (axioms: propext, Quot.sound, Classical.choice only)",
                   "harness/src/suites/c19.rs generators, canonicalisation and the stand-in git wrapper",
                   "vlib/props/c19_util.py (independent numstat / hunk / note parsing, glob matcher for the default ignore patterns)",
                   "git itself: `git show --numstat --no-renames --root` and `git diff -U0` are the reference for the commit's diff",
                   "glob crate matcher (predicate parameter `ign` of the model; evaluated by the real matcher in-process, "
                   "by an independent matcher end to end)",
                   "core::slice::binary_search_by transcribed by hand from core 1.95 (validated on sorted inputs only: "
                   "its result on unsorted slices is unspecified)"]
    res.assumptions = ["u32 modelled as Nat; every theorem about reported numbers assumes the checked result exists "
                       "(no u32 addition overflows; the debug build panics otherwise — correspondence checks exactly that)",
                       "C05 link: accepted = |added ∩ listed| needs one attestation per path and pairwise-disjoint ranges per "
                       "file (Lean: WF); without it the code double counts (witness_double_count, replayed from the corpus)",
                       "git consistency: numstat's added total over non-ignored files = number of added line numbers of "
                       "`git diff -U0` over the same files (checked on every end-to-end commit: e2e:git-numstat-vs-diff)",
                       "reference numstat is taken with --no-renames (as git-ai's own call); evidence records how often the "
                       "default rename-detecting form differs (e2e:commit:rename-detection-differs)",
                       "time_waiting_for_ai is not modelled"]
    C.phase_proofs(res, PROP, THEOREMS)
    ok, out = C.build_harness()
    if not ok:
        res.obligation("build harness against the git-ai working tree", False, "build")
        res.broken_tie("harness build", out[-3000:])
        return res.finish()
    n = 30000 if tier == "quick" else 600000
    corpus = os.path.join(C.VERIF, "corpus", "C19", "cases.jsonl")
    if tier == "quick":
        bad, newfail = C.phase_suite(res, "c19", seed, n, corpus)
    else:
        bad = newfail = 0
        for k in range(10):  # bounded memory: ten slices with different seeds
            b, f = C.phase_suite(res, "c19", seed + 4000000007 * k, n // 10, corpus if k == 0 else None, name=f"correspondence:c19:{k}")
            bad += b; newfail += f
    ok, out = C.build_git_ai()
    if not ok:
        res.obligation("build git-ai binary from the working tree", False, "build")
        res.broken_tie("git-ai build", out[-3000:])
    else:
        n_hist, n_commits = (30, 6) if tier == "quick" else (250, 8)
        phase_e2e(res, seed, n_hist, n_commits)
    if (bad or res.broken) and not res.violations:
        # broken tie: search harder for a concrete failing input on the implementation
        for s in range(seed + 1000, seed + 1006):
            C.phase_suite(res, "c19", s * 1000003, 30000, None, name=f"search:c19:{s}")
            if res.violations:
                break
        if not res.violations and ok:
            phase_e2e(res, seed + 1000, 60, 8, name="search:e2e")
        res.extra["search"] = ("6 extra seeds x 30000 in-process cases of the c19 generators and 60 extra histories of 8 commits, "
                               "all oracles evaluated on the implementation")
    return res.finish()
