"""C19 end-to-end part: small generated histories driven through the real git-ai binary; on every
commit `git-ai stats <sha> --json` is compared with git's own numstat, with the raw note and with
the Lean model of stats_for_commit_stats (driver op st_for_commit).

Everything the oracle needs is computed here independently of the Rust code: numstat records
from `git show --numstat -z`, added line numbers from `git diff -U0` hunk headers, the note via
the independent parser of vlib/e2e.py, the ignore decision by a small glob matcher over the
pattern list read from ignore.rs (configuration, not logic)."""
import json, os, random, re
from concurrent.futures import ThreadPoolExecutor

from vlib import common as C
from vlib import e2e

EMPTY_TREE = "4b825dc642cb6eb9a060e54bf8d69288fbee4904"


# ------------------------------------------------------------------ ignore patterns (independent matcher)

def default_patterns():
    src = open(os.path.join(C.REPO, "src", "authorship", "ignore.rs"), encoding="utf-8").read()
    m = re.search(r"DEFAULT_IGNORE_PATTERNS[^=]*=\s*&\[(.*?)\];", src, re.S)
    return re.findall(r'"([^"]+)"', m.group(1)) if m else []


def glob_to_re(pat):
    """glob crate semantics with default MatchOptions: `*`/`?` also match `/`; a `**` component
    matches any number of whole components."""
    out, i = "", 0
    while i < len(pat):
        if pat.startswith("**/", i) and (i == 0 or pat[i - 1] == "/"):
            out += r"(?:.*/)?"; i += 3
        elif pat.startswith("**", i) and (i == 0 or pat[i - 1] == "/") and i + 2 == len(pat):
            out += r".*"; i += 2
        elif pat[i] == "*":
            out += r".*"; i += 1
        elif pat[i] == "?":
            out += r"."; i += 1
        else:
            out += re.escape(pat[i]); i += 1
    return re.compile(r"\A" + out + r"\Z", re.S)


class Ignore:
    def __init__(self, patterns):
        self.res = [glob_to_re(p) for p in patterns]

    def __call__(self, path):
        base = path.rsplit("/", 1)[-1]
        return any(r.match(path) or r.match(base) for r in self.res)


# ------------------------------------------------------------------ git facts

def c_unquote(tok):
    if not (len(tok) >= 2 and tok.startswith('"') and tok.endswith('"')):
        return tok
    b, s, i = bytearray(), tok[1:-1], 0
    simple = {"t": 9, "n": 10, "r": 13, "a": 7, "b": 8, "f": 12, "v": 11, '"': 34, "\\": 92}
    while i < len(s):
        if s[i] == "\\" and i + 1 < len(s):
            if s[i + 1] in simple:
                b.append(simple[s[i + 1]]); i += 2; continue
            m = re.match(r"[0-7]{1,3}", s[i + 1:])
            if m:
                b.append(int(m.group(0), 8) & 255); i += 1 + len(m.group(0)); continue
        b.extend(s[i].encode("utf-8")); i += 1
    return b.decode("utf-8", "replace")


def parents(r, sha):
    rc, out, _ = r.plain_git("rev-list", "--parents", "-n", "1", sha)
    return out.split()[1:]


def numstat_records(r, sha):
    """[(added|None, deleted|None, path)] from `git show --numstat -z` (None = binary)."""
    rc, out, _ = r.plain_git("show", "--numstat", "--format=", "--no-renames", "--root", "-z", sha)
    recs = []
    for rec in out.split("\0"):
        rec = rec.lstrip("\n")
        if not rec:
            continue
        a, d, p = rec.split("\t", 2)
        recs.append((None if a == "-" else int(a), None if d == "-" else int(d), p))
    return recs


def numstat_text(r, sha, renames=False):
    args = ["show", "--numstat", "--format="] + ([] if renames else ["--no-renames"]) + ["--root", sha]
    return r.plain_git(*args)[1]


def added_lines(r, frm, to):
    """{path: sorted line numbers added} from hunk headers of `git diff -U0`."""
    rc, out, _ = r.plain_git("diff", "-U0", "--no-color", "--no-renames", "--no-ext-diff", frm, to)
    res, cur = {}, None
    for line in out.split("\n"):
        if line.startswith("+++ "):
            tok = line[4:].rstrip()
            if tok == "/dev/null":
                cur = None
            else:
                p = c_unquote(tok)
                cur = p[2:] if p.startswith("b/") else p
        elif line.startswith("@@ ") and cur is not None:
            m = re.match(r"@@ -\d+(?:,\d+)? \+(\d+)(?:,(\d+))? @@", line)
            if m:
                c, d = int(m.group(1)), int(m.group(2)) if m.group(2) is not None else 1
                if d > 0:
                    res.setdefault(cur, set()).update(range(c, c + d))
    return {p: sorted(v) for p, v in res.items()}


def ranges_of(text):
    out = []
    for part in text.split(","):
        if not part:
            continue
        if "-" in part:
            a, b = part.split("-", 1)
            out.append([int(a), int(b)])
        else:
            out.append([int(part)])
    return out


# ------------------------------------------------------------------ one commit

def check_commit(r, sha, ign, tags):
    """Returns (failures [(sig, witness)], model request, implementation stats or None)."""
    fails = []
    rc, out, err = r.ai("stats", sha, "--json")
    try:
        S = json.loads(out.strip().split("\n")[-1])
    except Exception:
        return [("e2e:stats-failed", {"sha": sha, "rc": rc, "stderr": err[-400:]})], None, None
    ps = parents(r, sha)
    recs = numstat_records(r, sha)
    note_text = r.note_text(sha)
    note = e2e.parse_note(note_text) if note_text is not None else None
    is_merge = len(ps) > 1
    added = {} if is_merge else added_lines(r, ps[0] if ps else EMPTY_TREE, sha)
    kind = "merge" if is_merge else ("root" if not ps else "ordinary")
    tags.append("commit:" + kind)

    # 1. numstat totals minus ignored files
    exp_a = sum(a for a, d, p in recs if a is not None and not ign(p))
    exp_d = sum(d for a, d, p in recs if d is not None and not ign(p))
    all_a = sum(a for a, d, p in recs if a is not None)
    n_ign = sum(1 for _, _, p in recs if ign(p))
    if any(a is None for a, _, _ in recs): tags.append("commit:binary-file")
    if n_ign: tags.append("commit:ignored-file")
    if any(p != p.encode("ascii", "ignore").decode() or "\t" in p for _, _, p in recs): tags.append("commit:quoted-path")
    ga, gd = S["git_diff_added_lines"], S["git_diff_deleted_lines"]
    w = {"sha": sha, "kind": kind, "stats": S, "numstat": recs, "note": note_text}
    if (ga, gd) != (exp_a, exp_d):
        sig = "e2e:ignored-file-counted" if (n_ign and ga == all_a) else "e2e:numstat-totals"
        fails.append((sig, dict(w, want=[exp_a, exp_d])))
    # git's two views agree (assumption `hgit` of commit_identities)
    if not is_merge:
        diff_total = sum(len(v) for p, v in added.items() if not ign(p))
        if diff_total != exp_a:
            fails.append(("e2e:git-numstat-vs-diff", dict(w, diff_total=diff_total, numstat_total=exp_a)))

    # 2. accepted = |added ∩ listed| (sets: a line listed twice counts once)
    listed, per_hash, overlap = set(), {}, False
    files, prompts = [], []
    if note and not note["errors"]:
        seen_paths = []
        for (p, h, rs) in note["entries"]:
            if not files or files[-1]["path"] != p:
                if p in seen_paths: overlap = True
                seen_paths.append(p)
                files.append({"path": p, "entries": []})
            files[-1]["entries"].append({"hash": h, "ranges": ranges_of(rs)})
            for l in e2e.parse_ranges(rs):
                if (p, l) in listed: overlap = True
                listed.add((p, l))
                if p in added and not ign(p) and l in set(added[p]):
                    per_hash.setdefault(h, set()).add((p, l))
        for h, pr in (note["meta"] or {}).get("prompts", {}).items():
            prompts.append({"hash": h, "tool": pr["agent_id"]["tool"], "model": pr["agent_id"]["model"],
                            "total_additions": pr.get("total_additions", 0), "total_deletions": pr.get("total_deletions", 0),
                            "overriden_lines": pr.get("overriden_lines", 0)})
        prompts.sort(key=lambda x: x["hash"])
        tags.append(f"note:sessions={min(len(prompts), 4)}")
        if overlap: tags.append("note:overlapping-ranges")
    elif note is None:
        tags.append("note:none")
    inter = set()
    if not is_merge:
        for p, ls in added.items():
            if not ign(p):
                inter |= {(p, l) for l in ls if (p, l) in listed}
    acc = S["ai_accepted"]
    if acc != len(inter):
        fails.append(("e2e:accepted-intersection" + (":overlapping-note" if overlap else ""), dict(w, want=len(inter), added=added)))
    if is_merge and acc != 0:
        fails.append(("e2e:merge-accepted-nonzero", w))
    tags.append("accepted:" + ("zero" if acc == 0 else "all" if acc == ga else "some"))

    # 3. identities
    if acc <= ga and S["human_additions"] + acc != ga:
        fails.append(("e2e:human-plus-accepted", w))
    if S["ai_additions"] != acc + S["mixed_additions"]:
        fails.append(("e2e:ai-additions-sum", w))
    if S["ai_additions"] > ga:
        fails.append(("e2e:ai-additions-exceed-added", w))
    if S["mixed_additions"] > max(0, ga - acc):
        fails.append(("e2e:mixed-exceeds-cap", w))
    sum_over = sum(p["overriden_lines"] for p in prompts)
    if S["mixed_additions"] != min(sum_over, max(0, ga - acc)):
        fails.append(("e2e:mixed-not-min", dict(w, sum_overriden=sum_over)))
    cap_fired = sum_over > max(0, ga - acc)
    tags.append("mixed:" + ("cap-fired" if cap_fired else "some" if S["mixed_additions"] else "zero"))

    # 4. per-tool breakdown
    T = S.get("tool_model_breakdown", {})
    key = {p["hash"]: f'{p["tool"]}::{p["model"]}' for p in prompts}
    want_tool = {}
    for h, pairs in per_hash.items():
        if h in key and not is_merge:
            want_tool[key[h]] = want_tool.get(key[h], 0) + len(pairs & inter)
    for k in set(want_tool) | set(T):
        if T.get(k, {}).get("ai_accepted", 0) != want_tool.get(k, 0):
            fails.append(("e2e:per-tool-accepted", dict(w, tool=k, want=want_tool.get(k, 0))))
            break
    all_prompted = all(h in key for h in per_hash)
    tsum = lambda f: sum(t.get(f, 0) for t in T.values())
    if all_prompted and tsum("ai_accepted") != acc:
        fails.append(("e2e:per-tool-accepted-sum", w))
    if tsum("total_ai_additions") != S["total_ai_additions"] or tsum("total_ai_deletions") != S["total_ai_deletions"]:
        fails.append(("e2e:per-tool-totals-sum", w))
    if S["total_ai_additions"] != sum(p["total_additions"] for p in prompts):
        fails.append(("e2e:totals-prompt-sums", w))
    if tsum("mixed_additions") != S["mixed_additions"]:
        fails.append(("e2e:per-tool-mixed-sum" + (":cap-fired" if cap_fired else ""), w))
    if all_prompted and tsum("ai_additions") != S["ai_additions"]:
        fails.append(("e2e:per-tool-ai-additions-sum" + (":cap-fired" if cap_fired else ""), w))
    if any(t.get("ai_additions", 0) > ga for t in T.values()):
        fails.append(("e2e:per-tool-ai-additions-exceed-added", w))
    tags.append(f"tools={min(len(T), 3)}")

    # 5. request for the Lean model of stats_for_commit_stats
    cands = {p for _, _, p in recs} | set(added)
    if not is_merge:
        # for a merge the code never looks at the diff
        diff_added = [{"path": p, "lines": ls} for p, ls in sorted(added.items())]
    else:
        diff_added = []
    req = {"op": "st_for_commit", "text": numstat_text(r, sha), "ignored": sorted(p for p in cands if ign(p)),
           "has_log": note is not None and not note["errors"], "files": files, "prompts": prompts,
           "parent_count": len(ps), "diff_added": diff_added}
    imp = {k: v for k, v in S.items() if k != "time_waiting_for_ai"}
    imp["tool_model_breakdown"] = {k: {a: b for a, b in t.items() if a != "time_waiting_for_ai"} for k, t in T.items()}
    # rename detection is off in git-ai's call; record how often the default form would differ
    if numstat_text(r, sha, renames=True) != req["text"]:
        tags.append("commit:rename-detection-differs")
    return fails, req, imp


# ------------------------------------------------------------------ history generator

TEXT_FILES = ["src/a.py", "src/b.py", "docs/r.md", "sp ace.txt", "a\tb.txt", "日本.txt",
              "Cargo.lock", "web/yarn.lock", "vendor/lib/v.go", "café.lock", "ui/app.min.js", "t/x.snap"]
SESSIONS = [("s1", "cursor", "gpt-5"), ("s2", "claude", "opus"), ("s3", "claude", "sonnet"), ("s4", "cursor", "gpt-5")]


class History:
    def __init__(self, env, name, rng):
        self.r = env.repo(name)
        self.rng = rng
        self.content = {}      # path -> list of lines
        self.n = 0
        self.tags = []

    def fresh(self, who):
        self.n += 1
        return f"{who} line {self.n}"

    def pick_file(self):
        rng = self.rng
        if self.content and rng.random() < 0.6:
            return rng.choice(sorted(self.content))
        return rng.choice(TEXT_FILES)

    def write(self, path):
        self.r.write(path, "".join(l + "\n" for l in self.content[path]))

    def insert(self, path, who, k):
        lines = self.content.setdefault(path, [])
        at = self.rng.randint(0, len(lines))
        new = [self.fresh(who) for _ in range(k)]
        lines[at:at] = new
        return at, k

    def ai_edit(self, path=None, session=None):
        rng = self.rng
        path = path or self.pick_file()
        if rng.random() < 0.8:
            self.r.human_checkpoint([path])
        at, k = self.insert(path, "AI", rng.randint(1, 6))
        if rng.random() < 0.3 and len(self.content[path]) > k + 1:
            del self.content[path][rng.randrange(len(self.content[path]))]
        self.write(path)
        if rng.random() < 0.25:
            self.r.mock_ai(path)
            self.tags.append("edit:mock_ai")
        else:
            s, tool, model = session or rng.choice(SESSIONS)
            self.r.ai_checkpoint(s, [path], tool=tool, model=model)
            self.tags.append("edit:agent")
        return path, at, k

    def human_edit(self, path=None):
        rng = self.rng
        path = path or self.pick_file()
        if rng.random() < 0.5:
            self.r.human_checkpoint([path])
        self.insert(path, "human", rng.randint(1, 4))
        self.write(path)
        if rng.random() < 0.5:
            self.r.ai("checkpoint")
        self.tags.append("edit:human")

    def override(self):
        """AI writes lines, a human rewrites / deletes some of them before the commit."""
        rng = self.rng
        path, at, k = self.ai_edit()
        self.r.human_checkpoint([path])
        lines = self.content[path]
        lo = min(at, len(lines) - 1)
        mode = rng.random()
        for i in range(lo, min(lo + k, len(lines))):
            if rng.random() < 0.6:
                lines[i] = self.fresh("human-rewrite")
        if mode < 0.4:
            # and then most of them disappear again: overriden_lines can exceed what the diff adds
            del lines[lo:min(lo + k, len(lines))]
        self.write(path)
        self.r.ai("checkpoint")
        self.tags.append("edit:override")

    def binary(self):
        self.r.write("img.bin", bytes([0, 1, 2, self.rng.randrange(256), 255, 0]), binary=True)
        self.tags.append("edit:binary")

    def delete(self):
        if self.content:
            p = self.rng.choice(sorted(self.content))
            del self.content[p]
            os.unlink(os.path.join(self.r.path, p))
            self.tags.append("edit:delete")

    def rename(self):
        cands = [p for p in self.content if p.startswith("src/")]
        if cands:
            p = self.rng.choice(cands)
            q = p.replace(".py", f"_{self.n}.py")
            self.r.plain_git("add", "-A")
            os.makedirs(os.path.dirname(os.path.join(self.r.path, q)), exist_ok=True)
            os.rename(os.path.join(self.r.path, p), os.path.join(self.r.path, q))
            self.content[q] = self.content.pop(p)
            self.tags.append("edit:rename")

    def step(self):
        rng = self.rng
        for _ in range(rng.randint(2, 5)):
            x = rng.random()
            if x < 0.40: self.ai_edit()
            elif x < 0.55: self.human_edit()
            elif x < 0.78: self.override()
            elif x < 0.86: self.binary()
            elif x < 0.92: self.delete()
            else: self.rename()

    def build(self, ncommits):
        rng, r = self.rng, self.r
        shas = []
        # root commit: often contains AI lines and an ignored file
        if rng.random() < 0.7:
            self.ai_edit("src/a.py")
        if rng.random() < 0.5:
            self.ai_edit("Cargo.lock")
        self.human_edit("docs/r.md")
        shas.append(r.commit("root"))
        for i in range(ncommits - 1):
            if rng.random() < 0.25 and shas[-1]:
                # merge: side branch gets its own (AI) commit, main moves on, then --no-ff merge
                r.git("checkout", "-q", "-b", f"side{i}")
                saved = {k: list(v) for k, v in self.content.items()}
                p = f"side/f{i}.py"
                self.ai_edit(p)
                shas.append(r.commit(f"side {i}"))
                r.git("checkout", "-q", "main")
                self.content = saved
                self.human_edit("docs/r.md") if rng.random() < 0.5 else self.ai_edit("src/b.py")
                shas.append(r.commit(f"main {i}"))
                rc, _, _ = r.git("merge", "--no-ff", "-q", "-m", f"merge {i}", f"side{i}")
                if rc == 0:
                    self.content[p] = r.read(p).split("\n")[:-1]
                    shas.append(r.head())
                    self.tags.append("step:merge")
                else:
                    r.git("merge", "--abort")
            else:
                self.step()
                sha = r.commit(f"c{i}")
                if sha and sha not in shas:
                    shas.append(sha)
        return [s for s in shas if s]


def run_history(seed, k, ncommits):
    rng = random.Random(seed * 1000003 + k)
    ign = Ignore(default_patterns())
    out = {"seed": seed, "k": k, "commits": 0, "fails": [], "reqs": [], "tags": [], "cmds": 0}
    with e2e.Env() as env:
        h = History(env, "r", rng)
        h.build(ncommits)
        rc, revs, _ = h.r.plain_git("rev-list", "--branches", "--reverse", "--topo-order")
        for sha in revs.split():
            tags = []
            fails, req, imp = check_commit(h.r, sha, ign, tags)
            out["commits"] += 1
            out["tags"].extend(tags)
            for sig, w in fails:
                w = dict(w, history={"seed": seed, "index": k, "commits": ncommits},
                         replay=f"python3 -c \"from vlib.props import c19_util as U; print(U.run_history({seed}, {k}, {ncommits})['fails'])\"  # cwd /verif")
                out["fails"].append((sig, w))
            if req is not None:
                out["reqs"].append((req, imp, sha))
        out["tags"].extend(h.tags)
        out["cmds"] = env.ncmd
    return out


def run_history_safe(seed, k, ncommits):
    """A hung or crashed subprocess of the runner (seen under heavy machine load) is not a C19
    verdict: retry the history once, then report it as skipped."""
    err = None
    for _ in range(2):
        try:
            return run_history(seed, k, ncommits)
        except Exception as e:  # subprocess.TimeoutExpired, OSError, ...
            err = e
    return {"seed": seed, "k": k, "commits": 0, "fails": [], "reqs": [], "tags": ["history:skipped"], "cmds": 0,
            "skipped": repr(err)[:600]}


def run_histories(seed, n, ncommits, workers=4):
    with ThreadPoolExecutor(max_workers=workers) as ex:
        return list(ex.map(lambda k: run_history_safe(seed, k, ncommits), range(n)))
