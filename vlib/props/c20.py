"""C20 — agent hook ingestion never fails the agent and never escapes the repository (DESIGN §8 C20).

Phases: extract exit/unwrap tables from handle_checkpoint's source → Lean proofs + axiom audit →
in-process correspondence (harness suite c20: routing, pathspec filter, agent-v1 decoder, serde
writer, JSONL framing on materialised directory trees) → end-to-end fuzz of the real binary for
every preset (vlib/props/c20_util.py) with model correspondence on valid payloads."""
import os, sys, json
from vlib import common as C

PROP = "C20"
THEOREMS = [
    "GitAi.Routing.routing_exact",
    "GitAi.Routing.routing_orphan",
    "GitAi.Routing.too_long_is_orphan",
    "GitAi.Routing.routing_contains_path_partial",
    "GitAi.Routing.routing_answer_is_root",
    "GitAi.Routing.group_assignment",
    "GitAi.Routing.orphan_in_no_group",
    "GitAi.Routing.witness_dotdot_through_missing",
    "GitAi.Routing.recorded_only_in_containing_root",
    "GitAi.Routing.named_paths_never_widen",
    "GitAi.Routing.single_mode_contained",
    "GitAi.Routing.multi_mode_contained",
    "GitAi.Routing.fanOut_never_widens",
    "GitAi.Routing.witness_nested_single_mode",
    "GitAi.Routing.handle_exit_modelled",
    "GitAi.Routing.extracted_exits_all_zero",
    "GitAi.Routing.extracted_exits_cover_model",
    "GitAi.Routing.extracted_presets_match_model",
    "GitAi.Routing.extracted_no_unguarded_unwrap",
    "GitAi.Routing.extracted_preset_panic_sites_reviewed",
    "GitAi.Routing.exit_zero",
    "GitAi.Routing.agentv1_total",
    "GitAi.Routing.agentv1_scalars_rejected",
    "GitAi.Routing.agentv1_human_ok_iff",
    "GitAi.Routing.agentv1_ai_ok_iff",
    "GitAi.Routing.agentv1_bad_tag_rejected",
    "GitAi.Routing.working_log_readable",
]


def run(tier, seed):
    from vlib.props import c20_util as U
    res = C.Result(PROP, tier, seed)
    res.rule = ("in-process: generated directory trees (nested / sibling-with-common-string-prefix / submodule / bare / no "
                "repository, sometimes a repository at the workspace top) materialised in a scratch dir; path lists "
                "(absolute, relative, `..` through existing and through missing directories, missing files, outside every "
                "root, under a nested root, symlinked) fed to the real find_repository_for_file / "
                "group_files_by_repository / path_is_in_workdir / checkpoint::run and to the Lean model; generated and "
                "mutated agent-v1 JSON trees; serde writer and JSONL framing on adversarial strings. end-to-end: every "
                "preset x 5 layouts x valid payloads with path variations + mutated payloads (truncation, type swap, "
                "field deletion, huge strings, many paths, non-JSON, BOM, empty, invalid UTF-8, deep nesting) via "
                "--hook-input <json> and stdin against the built binary. distinct = distinct request JSON (in-process) "
                "/ distinct (preset, layout, argv, payload) (end-to-end)")
    res.trusted = ["Lean 4.33 kernel (axioms: propext, Quot.sound, Classical.choice only)",
                   "extract/checkpoint_exits.py (textual extraction of process::exit sites / unwraps from handle_checkpoint)",
                   "harness/src/suites/c20.rs and vlib/props/c20_util.py (generators, canonicalisation, oracles)",
                   "serde_json's parser (the agent-v1 model starts from the parsed JSON value); git's pathspec handling "
                   "(Model/Routing.lean §6b, validated by correspondence)",
                   "the ten third-party-schema preset decoders are NOT modelled: no-panic / exit 0 for them rests on the "
                   "end-to-end fuzz only"]
    res.assumptions = ["no symbolic links in the modelled tree (symlinked paths are exercised with oracles only)",
                       "std::env::current_dir() succeeds (the hook is started in an existing directory) — the only "
                       "payload-independent unwrap in handle_checkpoint",
                       "checkpoint::run returning Ok/Err is a parameter of the control-flow model; that it does not "
                       "panic on accepted pathspecs is checked by the in-process and end-to-end runs only",
                       "trailing-slash-on-file, git pathspec magic characters (*?[:) and backslashes in names are outside "
                       "the generators' domain"]

    # ---- 1. extraction (a shape error is a broken tie)
    extraction = None
    try:
        sys.path.insert(0, os.path.join(C.VERIF, "extract"))
        import checkpoint_exits as X
        extraction = X.main()
        res.obligation("extract handle_checkpoint exit/unwrap tables", True, "extraction")
        res.extra["extraction"] = {
            "exit_sites": [{"line": s["line"], "code": s["code_text"], "site": s["label"]} for s in extraction["sites"]],
            "unwraps": extraction["unwraps"], "preset_source_counts": extraction["preset_counts"],
            "preset_arms": [a["name"] for a in extraction["arms"]],
            "preset_panic_sites": {"by_class": {c: sum(1 for u in extraction["preset_sites"] if u["class"] == c)
                                                for c in ("jsonIndex", "reviewed", "unreviewed")},
                                   "unreviewed": [u for u in extraction["preset_sites"] if u["class"] == "unreviewed"]}}
    except Exception as e:  # ExtractError or unexpected source shape
        res.obligation("extract handle_checkpoint exit/unwrap tables", False, "extraction")
        res.broken_tie("extractor checkpoint_exits.py", str(e))

    # ---- 2. proofs
    C.phase_proofs(res, PROP, THEOREMS)

    # ---- 3. builds
    ok, out = C.build_harness()
    for _ in range(2):
        # several checks share /verif/build; a concurrent clean-up of alt build directories can pull
        # a directory away under a running build script — that is not a property of /repo: retry
        if ok or "No such file or directory" not in out:
            break
        ok, out = C.build_harness()
    if not ok:
        res.obligation("build harness against the working tree", False, "build")
        res.broken_tie("harness build", out[-3000:])
    ok2, out2 = C.build_git_ai()
    for _ in range(2):
        if ok2 or "No such file or directory" not in out2:
            break
        ok2, out2 = C.build_git_ai()
    if not ok2:
        res.obligation("build git-ai binary from the working tree", False, "build")
        res.broken_tie("git-ai build", out2[-3000:])

    # ---- 4. in-process correspondence + oracles
    corpus = os.path.join(C.VERIF, "corpus", "C20", "cases.jsonl")
    bad = 0
    if ok:
        n = 1500 if tier == "quick" else 30000
        bad, _ = C.phase_suite(res, "c20", seed, n, corpus)

    # ---- 5. end-to-end fuzz
    presets = [a["name"] for a in extraction["arms"]] if extraction else U.DEFAULT_PRESETS
    if ok2:
        per = 16 if tier == "quick" else 300
        U.fuzz(res, seed, presets, per, tier, corpus_file=os.path.join(C.VERIF, "corpus", "C20", "e2e.jsonl"))

    # ---- 6. a broken tie without a failing input yet: search harder on the implementation
    if res.broken and not res.violations:
        tried = []
        if ok:
            for s in range(seed + 1000, seed + 1003):
                C.phase_suite(res, "c20", s, 3000, None, name=f"search:c20:{s}")
                tried.append(f"c20 suite seed {s} x 3000")
                if res.violations:
                    break
        if ok2 and not res.violations:
            for s in range(seed + 2000, seed + 2002):
                U.fuzz(res, s, presets, 40, tier, corpus_file=None, label=f"search:e2e:{s}")
                tried.append(f"e2e fuzz seed {s}: {len(presets)} presets x 5 layouts x 40 payloads")
                if res.violations:
                    break
        res.extra["search"] = "; ".join(tried) + "; all oracles evaluated on the implementation"
    return res.finish()
