"""End-to-end fuzz of `git-ai checkpoint <preset> --hook-input <json|stdin>` (C20).

Every scenario owns one scratch `Env` (outside /repo and /verif, removed afterwards) with one of
five layouts and runs a list of payload cases against the binary built from the working tree.
Observed per case: exit status, `panicked at` in stderr, wall time, every checkpoints.jsonl parsed
line by line, which repositories received entries for which files. For valid payloads the Lean
control-flow/routing model (`rt_handle`) predicts the entries per repository; a disagreement is a
broken tie. All randomness derives from (seed, preset, layout, index)."""
import base64, concurrent.futures, hashlib, json, os, random, shutil, subprocess, sys, tempfile, threading, time

from vlib import common as C
from vlib import e2e

DEFAULT_PRESETS = ["claude", "codex", "gemini", "continue-cli", "cursor", "github-copilot", "amp", "ai_tab",
                   "agent-v1", "droid", "opencode", "mock_ai"]
LAYOUTS = ["single", "nested", "multi", "bare", "norepo"]
HANG_S = 20.0          # CPU seconds
WALL_LIMIT_S = 120.0   # wall-clock seconds (sleep / dead-lock)


def _feed(proc, data):
    try:
        proc.stdin.write(data)
    except Exception:
        pass
    try:
        proc.stdin.close()
    except Exception:
        pass
SINGLE_PATH = {"claude", "gemini", "continue-cli", "cursor", "droid", "opencode"}
NO_PATHS = {"codex"}


# ------------------------------------------------------------------------------------------ layouts

class Layout:
    def __init__(self, env, kind):
        self.env, self.kind = env, kind
        root = env.root
        self.repos = {}          # abs root -> e2e.Repo (work trees)
        self.bare = None
        self.ws = os.path.join(root, "ws")
        os.makedirs(self.ws)
        self.other = self._mk_repo("other")
        os.makedirs(os.path.join(root, "orphan"))
        self._w(os.path.join(root, "orphan", "x.txt"), "orphan\n")
        self.primary = None
        if kind in ("single", "nested"):
            self.primary = self._mk_repo("ws/repo")
            if kind == "nested":
                self.inner = self._mk_repo("ws/repo/in")
            self.cwd = self.wd = self.primary.path
        elif kind == "multi":
            self.r1 = self._mk_repo("ws/repo")
            self.r2 = self._mk_repo("ws/repo2")      # common string prefix with ws/repo
            self._w(os.path.join(self.ws, "loose.txt"), "loose\n")
            self.cwd = self.wd = self.ws
        elif kind == "bare":
            self.bare = env.repo("ws/bare.git", bare=True)
            self._w(os.path.join(self.ws, "loose.txt"), "loose\n")
            self.cwd = self.wd = self.bare.path
        else:
            os.makedirs(os.path.join(self.ws, "plain"))
            self._w(os.path.join(self.ws, "plain", "x.txt"), "plain\n")
            self.cwd = self.wd = os.path.join(self.ws, "plain")
        self.fs = self._scan()

    @staticmethod
    def _w(p, text):
        os.makedirs(os.path.dirname(p), exist_ok=True)
        with open(p, "w") as f:
            f.write(text)

    def _mk_repo(self, rel):
        r = self.env.repo(rel)
        r.write("f.txt", "base\n"); r.write("src/m.rs", "fn main() {}\n"); r.write("human.txt", "h\n")
        r.plain_git("add", "f.txt", "src/m.rs", "human.txt")
        r.plain_git("commit", "-q", "-m", "base")
        r.write("f.txt", "base\nAI line\n"); r.write("src/m.rs", "fn main() {}\n// ai\n")
        r.write("human.txt", "h\nhuman edit (never named by any payload)\n")
        self.repos[r.path] = r
        return r

    DIRTY = ["f.txt", "human.txt", "src/m.rs"]

    def _scan(self):
        dirs, files, roots = [], [], []
        top = self.env.root
        for dp, dn, fn in os.walk(top):
            rel = os.path.relpath(dp, top)
            if rel in ("home", "db") or rel.startswith("home" + os.sep):
                dn[:] = []
                continue
            if dp != top or True:
                dirs.append(dp)
            if ".git" in dn:
                roots.append([dp, "normal"]); dn.remove(".git")
            elif dp.endswith(".git") and "HEAD" in fn and "objects" in dn:
                roots.append([dp, "bare"]); dn[:] = []; fn = []
            for f in fn:
                files.append(os.path.join(dp, f))
        p = top
        while os.path.dirname(p) != p:
            p = os.path.dirname(p)
            if p != "/":
                dirs.append(p)
        return {"dirs": dirs, "files": files, "roots": roots}

    def targets(self):
        """named path spellings available in this layout: {tag: string}"""
        t = {"other-repo": os.path.join(self.other.path, "f.txt"),
             "orphan": os.path.join(self.env.root, "orphan", "x.txt"),
             "nowhere": "/definitely/not/here.txt"}
        if self.primary:
            R = self.primary.path
            t.update({"in-abs": f"{R}/f.txt", "in-rel": "f.txt", "in-rel-sub": "src/m.rs", "in-missing": f"{R}/none.txt",
                      "in-dotdot": f"{R}/src/../f.txt", "in-rel-dotdot": "src/../f.txt", "in-dir": f"{R}/src",
                      "rel-escape": "../../other/f.txt", "abs-escape": f"{R}/../../other/f.txt",
                      "missing-dotdot-escape": f"{R}/nodir/../../../other/f.txt", "in-slashes": f"{R}//src/./m.rs",
                      "rel-curdir": "./f.txt"})
            if self.kind == "nested":
                t.update({"nested-abs": f"{R}/in/f.txt", "nested-rel": "in/f.txt"})
        elif self.kind == "multi":
            W = self.ws
            t.update({"repo-abs": f"{W}/repo/f.txt", "repo2-abs": f"{W}/repo2/f.txt", "repo-rel": "repo/f.txt",
                      "repo2-rel-sub": "repo2/src/m.rs", "loose": f"{W}/loose.txt", "repo-missing": f"{W}/repo/none.txt",
                      "repo-dotdot-sibling": f"{W}/repo/../repo2/f.txt", "repo-missing-dotdot": f"{W}/repo/nodir/../../repo2/f.txt"})
        elif self.kind == "bare":
            t.update({"loose": f"{self.ws}/loose.txt", "bare-head": f"{self.bare.path}/HEAD", "rel-head": "HEAD"})
        else:
            t.update({"plain-abs": f"{self.ws}/plain/x.txt", "plain-rel": "x.txt"})
        return t

    def wipe_logs(self):
        for r in list(self.repos.values()) + ([self.bare] if self.bare else []):
            shutil.rmtree(os.path.join(r.ai_dir(), "working_logs"), ignore_errors=True)

    def observe(self):
        """(entries per repo root, list of unreadable working-log lines)"""
        entries, unreadable = {}, []
        for root, r in list(self.repos.items()) + ([(self.bare.path, self.bare)] if self.bare else []):
            d = os.path.join(r.ai_dir(), "working_logs")
            if not os.path.isdir(d):
                continue
            for base in os.listdir(d):
                p = os.path.join(d, base, "checkpoints.jsonl")
                if not os.path.exists(p):
                    continue
                raw = open(p, "rb").read()
                try:
                    text = raw.decode("utf-8")
                except UnicodeDecodeError:
                    unreadable.append({"repo": root, "why": "not utf-8"}); continue
                for k, line in enumerate(text.split("\n")):
                    if not line.strip():
                        continue
                    try:
                        cp = json.loads(line)
                        for e in cp["entries"]:
                            entries.setdefault(root, set()).add(e["file"])
                    except Exception as ex:
                        unreadable.append({"repo": root, "line": k, "why": str(ex)[:100], "text": line[:120]})
        return entries, unreadable


# ------------------------------------------------------------------------------------------ payloads

def shape_path(rng, p, D):
    """the same file named the way editors name it: absolute, relative to D, file:// URIs, Windows spellings,
    plus names whose first characters are not ASCII (byte-index slicing of a path must stay on char boundaries)"""
    rel = os.path.relpath(p, D) if D and os.path.isabs(p) and os.path.isabs(D) else p
    r = rng.random()
    if r < 0.30:
        return p
    if r < 0.45:
        return rel
    if r < 0.55:
        return "file://" + p
    if r < 0.62:
        return "file://localhost" + p
    if r < 0.78:
        return rng.choice(["übersicht.txt", "aé.txt", "é", "é:", "日本/語.txt", "😀.txt", "x😀y/z.txt",
                           "é/" + rel, "́leading-combining.txt"])
    return rng.choice(["C:\\work\\f.txt", "c:rel.txt", "1:notes.txt", ":", "\\\\srv\\share\\f.txt", "file:///C:/work/f.txt", "file://", "file://localhost",
                       " " + p + " ", rel + "/", "./" + rel, "a/../" + rel, "~/" + rel, "-" + rel, "%2e%2e/" + rel, "x", ".", ".."])


PATHY_KEYS = ("path", "file", "uri", "cwd", "dir", "folder", "root")


def base_payload(preset, rng, L, human, paths, D, extra):
    """(payload object or None for mock_ai, expected AgentRun for the model or None)"""
    uuid = "3f2a9c1e-0000-4000-8000-%012x" % rng.randrange(1 << 48)
    tdir = os.path.join(L.env.root, "transcripts")
    p0 = paths[0] if paths else None
    run = lambda kind, d, ps: {"kind": kind, "dir": d,
                               "edited": None if kind == "human" else ps, "will_edit": ps if kind == "human" else None}
    if preset == "claude":
        o = {"hook_event_name": "PreToolUse" if human else "PostToolUse", "cwd": D, "session_id": uuid,
             "transcript_path": f"{tdir}/.claude/projects/-p/{uuid}.jsonl", "tool_name": "Edit"}
        if p0 is not None:
            o["tool_input"] = {"file_path": p0, "old_string": "a", "new_string": "b"}
        return o, run("human" if human else "ai_agent", None, [p0] if p0 is not None else None)
    if preset == "gemini":
        o = {"hook_event_name": "BeforeTool" if human else "AfterTool", "session_id": uuid, "cwd": D,
             "transcript_path": f"{tdir}/gemini/{uuid}.json"}
        if p0 is not None:
            o["tool_input"] = {"file_path": p0}
        return o, run("human" if human else "ai_agent", None, [p0] if p0 is not None else None)
    if preset == "continue-cli":
        o = {"hook_event_name": "PreToolUse" if human else "PostToolUse", "session_id": uuid, "cwd": D, "model": "m-1",
             "transcript_path": f"{tdir}/continue/{uuid}.json"}
        if p0 is not None:
            o["tool_input"] = {"file_path": p0}
        return o, run("human" if human else "ai_agent", None, [p0] if p0 is not None else None)
    if preset == "codex":
        o = {"session_id": uuid, "cwd": D, "transcript_path": f"{tdir}/codex/rollout-{uuid}.jsonl", "type": "agent-turn-complete"}
        return o, run("ai_agent", D, None)
    if preset == "cursor":
        if human:
            o = {"conversation_id": uuid, "workspace_roots": [D], "hook_event_name": "beforeSubmitPrompt", "model": "m"}
            return o, run("human", D, None)
        o = {"conversation_id": uuid, "workspace_roots": [D], "hook_event_name": "afterFileEdit", "model": "m"}
        if p0 is not None:
            o["file_path"] = p0
        ok = extra.get("cursor_db")
        return o, (run("ai_agent", D, [p0] if p0 else None) if ok else None)
    if preset == "github-copilot" and rng.random() < 0.45:
        # VS Code native hooks (PreToolUse / PostToolUse): the only route into normalize_hook_path,
        # collect_tool_paths and the transcript-path sniffing. Not predicted by the model (expected None):
        # exit status, panic markers and "entries only in containing repositories" are the oracles.
        tool = rng.choice(["create_file", "replace_string_in_file", "insert_edit_into_file", "copilot_insertEdit", "apply_patch",
                           "multiEdit", "write", "vscode_editFile_internal", "read_file", "delete_file"])
        tp = rng.choice([f"{tdir}/User/workspaceStorage/ab12/chatSessions/{uuid}.json",
                         f"{tdir}/User/globalStorage/github.copilot-chat/transcripts/{uuid}.jsonl",
                         f"{tdir}/.claude/projects/-p/{uuid}.jsonl", f"{tdir}/copilot_session_{uuid}.json", None])
        ev = "PreToolUse" if human else "PostToolUse"
        camel = rng.random() < 0.3
        o = {("hookEventName" if camel else "hook_event_name"): ev, rng.choice(["cwd", "workspace_folder", "workspaceFolder"]): D,
             rng.choice(["session_id", "chat_session_id", "sessionId"]): uuid, ("toolName" if camel else "tool_name"): tool}
        if tp is not None:
            o[rng.choice(["transcript_path", "transcriptPath", "chat_session_path"])] = tp
        shaped = [shape_path(rng, x, D) for x in paths]
        ti = {}
        if shaped:
            k = rng.choice(["filePath", "file_path", "path", "fsPath", "files", "filePaths", "uri"])
            ti[k] = shaped if k in ("files", "filePaths") and rng.random() < 0.7 else shaped[0]
            if len(shaped) > 1 and rng.random() < 0.5:
                ti["edits"] = [{"uri": {"fsPath": x, "external": "file://" + x}} for x in shaped[1:]]
        o["toolInput" if camel else "tool_input"] = ti
        if rng.random() < 0.4:
            o["tool_response" if not camel else "toolResponse"] = {"files": shaped, "note": "file://" + (shaped[0] if shaped else "/nowhere")}
        if rng.random() < 0.3:
            o["will_edit_filepaths" if human else "edited_filepaths"] = shaped
        return o, None
    if preset == "github-copilot":
        if human:
            o = {"hook_event_name": "before_edit", "workspace_folder": D, "will_edit_filepaths": list(paths)}
            return o, (run("human", D, list(paths)) if paths else None)
        o = {"hook_event_name": "after_edit", "workspace_folder": D, "chat_session_path": f"{tdir}/copilot/{uuid}.json",
             "session_id": uuid, "edited_filepaths": list(paths)}
        # an empty list falls back to paths detected in the (missing) session file: none
        return o, (run("ai_agent", D, list(paths)) if paths else None)
    if preset == "amp":
        o = {"hook_event_name": "PreToolUse" if human else "PostToolUse", "tool_use_id": "toolu_" + uuid[:8], "thread_id": "T-" + uuid,
             "cwd": D, "edited_filepaths": list(paths), "tool_input": {"path": p0} if p0 is not None else None}
        ps = [x for x in paths if x.strip()] or ([p0] if p0 and p0.strip() else None)
        return o, run("human" if human else "ai_agent", D, ps if ps else None)
    if preset == "ai_tab":
        o = {"hook_event_name": "before_edit" if human else "after_edit", "tool": "copilot-tab", "model": "default",
             "repo_working_dir": D, "completion_id": uuid}
        o["will_edit_filepaths" if human else "edited_filepaths"] = list(paths)
        d = D.strip() or None
        return o, run("human" if human else "ai_tab", d, list(paths))
    if preset == "agent-v1":
        if human:
            o = {"type": "human", "repo_working_dir": D, "will_edit_filepaths": list(paths)}
        else:
            o = {"type": "ai_agent", "repo_working_dir": D, "edited_filepaths": list(paths),
                 "transcript": {"messages": [{"type": "user", "text": "do it"}, {"type": "assistant", "text": "done"}]},
                 "agent_name": "verif-agent", "model": "m-1", "conversation_id": uuid}
        return o, run("human" if human else "ai_agent", D, list(paths))
    if preset == "droid":
        o = {"hookEventName": "PreToolUse" if human else "PostToolUse", "cwd": D, "sessionId": uuid, "toolName": "Edit",
             "transcriptPath": f"{tdir}/droid/{uuid}.jsonl"}
        if p0 is not None:
            o["tool_input"] = {"file_path": p0}
        return o, run("human" if human else "ai_agent", D, [p0] if p0 is not None else None)
    if preset == "opencode":
        o = {"hook_event_name": "PreToolUse" if human else "PostToolUse", "session_id": uuid, "cwd": D}
        if p0 is not None:
            o["tool_input"] = {"filePath": p0}
        return o, run("human" if human else "ai_agent", D, [p0] if p0 is not None else None)
    return None, None


def leaves(o, path=()):
    if isinstance(o, dict):
        for k, v in o.items():
            yield from leaves(v, path + (k,))
    elif isinstance(o, list):
        for i, v in enumerate(o):
            yield from leaves(v, path + (i,))
    else:
        yield path, o


def set_at(o, path, val):
    for k in path[:-1]:
        o = o[k]
    o[path[-1]] = val


def del_at(o, path):
    for k in path[:-1]:
        o = o[k]
    if isinstance(o, list):
        o.pop(path[-1])
    else:
        del o[path[-1]]


OTHER_TYPES = [None, 0, -1, 1.5, True, [], {}, [1], {"a": 1}, "", "0", 12345678901234567890]


def mutate(rng, obj, tier, L, preset):
    """returns (bytes payload, mutation tag, force_stdin)"""
    o = json.loads(json.dumps(obj))
    lv = list(leaves(o))
    kind = rng.choice(["truncate", "truncate", "typeswap", "typeswap", "delete", "delete", "huge", "many-paths", "non-json",
                       "bom", "empty", "bad-utf8", "deep", "null-root", "array-root", "dup-key", "nul-char", "big-number",
                       "path-shape", "path-shape", "path-shape"])
    text = json.dumps(o)
    if kind == "truncate":
        cut = rng.randrange(0, max(1, len(text)))
        return text[:cut].encode(), kind, False
    if kind == "typeswap" and lv:
        path, _ = rng.choice(lv)
        # swap the leaf or one of its ancestors
        depth = rng.randrange(1, len(path) + 1)
        set_at(o, path[:depth], rng.choice(OTHER_TYPES))
        return json.dumps(o).encode(), kind, False
    if kind == "delete" and lv:
        path, _ = rng.choice(lv)
        depth = rng.randrange(1, len(path) + 1)
        del_at(o, path[:depth])
        return json.dumps(o).encode(), kind, False
    if kind == "huge":
        size = rng.choice([1 << 16, 1 << 18, 1 << 20] if tier == "quick" else [1 << 20, 4 << 20, 10 << 20])
        strs = [p for p, v in lv if isinstance(v, str)]
        filler = rng.choice(["A", "é", "/x", "\\n", "../"]) * (size // 2)
        if strs:
            path = rng.choice(strs)
            set_at(o, path, filler[:size])
        else:
            o["huge"] = filler[:size]
        return json.dumps(o).encode(), f"huge:{size >> 10}KiB", True
    if kind == "many-paths":
        n = (300 if L.kind == "multi" else 2000) if tier == "quick" else (1000 if L.kind == "multi" else 100000)
        base = L.primary.path if L.primary else L.ws
        many = [f"{base}/gen/f{i}.txt" for i in range(n)] + list(L.targets().values())
        for key in ("edited_filepaths", "will_edit_filepaths"):
            if key in o:
                o[key] = many
                break
        else:
            o["edited_filepaths"] = many
        return json.dumps(o).encode(), f"many-paths:{n}", True
    if kind == "non-json":
        return rng.choice([b"not json at all", b"<xml/>", b"{'single': 'quotes'}", b"\x00\x01\x02", b"{\"a\":}", b"[[[[",
                           b"NaN", b"-", b"\"unterminated", text.encode() + b" trailing"]), kind, False
    if kind == "bom":
        return b"\xef\xbb\xbf" + text.encode(), kind, rng.random() < 0.5
    if kind == "empty":
        return rng.choice([b"", b" ", b"\n\n", b"\t"]), kind, rng.random() < 0.5
    if kind == "bad-utf8":
        return text.encode()[: len(text) // 2] + b"\xff\xfe\x80" + text.encode()[len(text) // 2:], kind, True
    if kind == "deep":
        d = rng.choice([200, 5000, 100000])
        return (b"[" * d) + (b"]" * d), f"deep:{d}", True
    if kind == "path-shape":
        # every path-like string (by key name, or an absolute path / URI by value) is re-spelled
        D = L.wd
        n = 0
        for path, v in lv:
            if not isinstance(v, str) or not v:
                continue
            keyish = any(isinstance(k, str) and any(t in k.lower() for t in PATHY_KEYS) for k in path)
            if (keyish or v.startswith("/") or v.startswith("file:")) and rng.random() < 0.7:
                if any(isinstance(k, str) and k.lower() in ("cwd", "workspace_folder", "workspacefolder", "repo_working_dir") for k in path) and rng.random() < 0.8:
                    continue        # mostly keep the working directory so the paths are still resolved against a repository
                set_at(o, path, shape_path(rng, v, D)); n += 1
        return json.dumps(o).encode(), kind, False
    if kind == "null-root":
        return rng.choice([b"null", b"true", b"0", b"\"str\""]), kind, False
    if kind == "array-root":
        return json.dumps([o]).encode(), kind, False
    if kind == "dup-key":
        k = rng.choice(list(o.keys())) if o else "x"
        return (text[:-1] + "," + json.dumps(k) + ":" + json.dumps(rng.choice(OTHER_TYPES)) + "}").encode(), kind, False
    if kind == "nul-char":
        strs = [p for p, v in lv if isinstance(v, str)]
        if strs:
            path = rng.choice(strs)
            cur = o
            for k in path[:-1]:
                cur = cur[k]
            cur[path[-1]] = cur[path[-1]] + "\u0000tail"
        return json.dumps(o).encode(), kind, True
    if kind == "big-number":
        return text.replace("}", ',"n":1e999999,"m":-0.0,"k":123456789012345678901234567890}', 1).encode(), kind, False
    return text.encode(), "identity", False


# ------------------------------------------------------------------------------------------ one case

def physical(p):
    try:
        return os.path.realpath(p)
    except Exception:
        return os.path.normpath(p)


def inside(root, p):
    root = root.rstrip("/")
    return p == root or p.startswith(root + "/")


def mentioned_paths(payload_bytes, argv_paths, cwd):
    out = set([cwd])
    strs = list(argv_paths)
    try:
        v = json.loads(payload_bytes.decode("utf-8-sig"))
        strs += [x for _, x in leaves(v) if isinstance(x, str) and len(x) < 4096]
    except Exception:
        pass
    if len(strs) > 400:
        # many-paths payloads: the generated names are all siblings; keep a bounded sample plus
        # every name that does not follow the generated pattern
        strs = [x for x in strs if "/gen/f" not in x] + [x for x in strs if "/gen/f" in x][:50]
        strs = strs[:3000]
    # the decoders trim surrounding whitespace of a path and strip `file://` / `file://localhost` (normalize_hook_path):
    # a path mentioned in either spelling is a mentioned path
    extra = []
    for s_ in strs:
        t_ = s_.strip()
        for pre in ("file://localhost", "file://"):
            if t_.startswith(pre):
                t_ = t_[len(pre):]
                break
        if t_ != s_:
            extra.append(t_)
    strs = strs + extra
    absolute = [s for s in strs if s.startswith("/")]
    bases = set([cwd] + [a for a in absolute if os.path.isdir(a)])
    for s in strs:
        if "\x00" in s:
            continue
        if s.startswith("file://"):
            s = s[7:]
        if s.startswith("/"):
            out.add(physical(s)); out.add(os.path.normpath(s))
        else:
            for b in bases:
                out.add(physical(os.path.join(b, s))); out.add(os.path.normpath(os.path.join(b, s)))
    return out


def run_case(L, preset, case, res_sink):
    env = L.env
    argv = [env.binary, "checkpoint", preset]
    stdin = None
    payload = case.get("payload")
    if preset == "mock_ai":
        argv += case.get("paths", [])
    elif payload is not None:
        if case["stdin"]:
            argv += ["--hook-input", "stdin"]; stdin = payload
        else:
            argv += ["--hook-input", payload.decode("utf-8", "surrogateescape")]
    if case.get("no_hook_input"):
        argv = [env.binary, "checkpoint", preset]
    L.wipe_logs()
    e = dict(env.env)
    e.update(case["env"])
    t0 = time.time()
    # a hang is judged by the CPU time the command (and its reaped children) consumed, so that a
    # loaded machine does not turn slow wall-clock runs into alarms; a wall-clock limit of
    # WALL_LIMIT_S catches the command that sleeps or dead-locks instead of burning CPU
    try:
        with tempfile.TemporaryFile() as ferr:
            proc = subprocess.Popen(argv, cwd=case["cwd"], env=e, stdin=subprocess.PIPE, stdout=subprocess.DEVNULL, stderr=ferr)
            feeder = threading.Thread(target=_feed, args=(proc, stdin if stdin is not None else b""), daemon=True)
            feeder.start()
            hung, cpu = False, 0.0
            deadline = t0 + WALL_LIMIT_S
            while True:
                pid, status, ru = os.wait4(proc.pid, os.WNOHANG)
                if pid:
                    cpu = ru.ru_utime + ru.ru_stime
                    rc = os.waitstatus_to_exitcode(status)
                    proc.returncode = rc
                    break
                if time.time() > deadline:
                    proc.kill(); os.wait4(proc.pid, 0); proc.returncode = -9
                    rc, hung = None, True
                    break
                time.sleep(0.005 if time.time() - t0 < 1 else 0.05)
            ferr.seek(0)
            err = ferr.read()[-20000:].decode("utf-8", "replace")
    except (OSError, ValueError) as ex:   # E2BIG / embedded NUL in argv: not deliverable this way
        return {"skipped": str(ex)[:80]}
    wall = time.time() - t0
    hung = hung or cpu > HANG_S
    entries, unreadable = L.observe()
    return {"rc": rc, "hung": hung, "wall": wall, "cpu": round(cpu, 2), "panic": "panicked at" in err,
            "stderr_tail": "\n".join(l for l in err.split("\n") if "BENCHMARK" not in l)[-600:],
            "entries": {k: sorted(v) for k, v in entries.items()}, "unreadable": unreadable}


def witness_of(L, preset, case, obs):
    pl = case.get("payload") or b""
    return {"case_key": case["key"], "preset": preset, "layout": L.kind, "via": "stdin" if case.get("stdin") else "argv",
            "tags": case["tags"], "cwd": case["cwd"].replace(L.env.root, "<ROOT>"),
            "payload_head": pl[:1500].decode("utf-8", "replace").replace(L.env.root, "<ROOT>"), "payload_len": len(pl),
            "payload_b64": base64.b64encode(pl).decode() if len(pl) <= 6000 else None,
            "mock_paths": [p.replace(L.env.root, "<ROOT>") for p in case.get("paths", [])],
            "observed": {"rc": obs.get("rc"), "hung": obs.get("hung"), "panic": obs.get("panic"), "wall_s": round(obs.get("wall", 0), 2), "cpu_s": obs.get("cpu"),
                         "entries": {k.replace(L.env.root, "<ROOT>"): v for k, v in obs.get("entries", {}).items()},
                         "stderr_tail": obs.get("stderr_tail", "").replace(L.env.root, "<ROOT>")}}


def gen_cases(seed, preset, layout_kind, L, n, tier, extra):
    cases = []
    tg = L.targets()
    names = sorted(tg)
    for k in range(n):
        key = f"{seed}:{preset}:{layout_kind}:{k}"
        rng = random.Random(key)
        human = rng.random() < 0.3
        if preset in SINGLE_PATH:
            chosen = [rng.choice(names)] if rng.random() < 0.9 else []
        elif preset in NO_PATHS:
            chosen = []
        else:
            chosen = rng.sample(names, rng.choice([1, 1, 2, 3, 3])) if rng.random() < 0.92 else []
        paths = [tg[c] for c in chosen]
        cwd = L.cwd
        D = L.wd
        dtag = "wd=layout"
        r = rng.random()
        if r < 0.08 and L.primary:
            D = os.path.join(L.primary.path, "src"); dtag = "wd=subdir"
        elif r < 0.14:
            cwd = os.path.join(L.env.root, "orphan"); dtag = "cwd=elsewhere"
        elif r < 0.18:
            cwd = L.other.path; dtag = "cwd=other-repo"
        tags = [f"preset:{preset}", f"layout:{layout_kind}", dtag, "kind:" + ("human" if human else "ai")] + [f"path:{c}" for c in chosen]
        case = {"key": key, "cwd": cwd, "env": extra["env"], "tags": tags, "stdin": rng.random() < 0.35}
        if preset == "mock_ai":
            case["paths"] = paths
            case["expected"] = {"mock": True}
            case["tags"].append("valid")
            cases.append(case)
            continue
        obj, exp = base_payload(preset, rng, L, human, paths, D, extra)
        valid = rng.random() < 0.42
        if valid:
            text = json.dumps(obj)
            if rng.random() < 0.1:
                text = "\ufeff" + text; tags.append("bom")
            case["payload"] = text.encode()
            case["expected"] = exp
            case["obj"] = obj
            tags.append("valid")
        else:
            if rng.random() < 0.04:
                case["no_hook_input"] = True; case["payload"] = None; tags.append("mut:no-hook-input")
            else:
                pl, mt, force = mutate(rng, obj, tier, L, preset)
                case["payload"] = pl
                case["stdin"] = case["stdin"] or force or len(pl) > 100000 or b"\x00" in pl
                try:
                    pl.decode("utf-8")
                except UnicodeDecodeError:
                    case["stdin"] = True
                tags.append("mut:" + mt.split(":")[0]); tags.append("mut=" + mt)
            case["expected"] = None
        tags.append("via:" + ("stdin" if case["stdin"] else "argv"))
        cases.append(case)
    if layout_kind == "single" and preset != "mock_ai":
        cases.extend(systematic_cases(seed, preset, L, extra))
    return cases


def container_paths(o, path=()):
    """every key path of the object: leaves and containers"""
    if isinstance(o, dict):
        for k, v in o.items():
            yield path + (k,)
            yield from container_paths(v, path + (k,))
    elif isinstance(o, list):
        for i, v in enumerate(o):
            yield path + (i,)
            yield from container_paths(v, path + (i,))


def systematic_cases(seed, preset, L, extra):
    """field-wise enumeration: every key path of the valid AI and human payloads is deleted and
    replaced by null / number / array / object / empty string (one change at a time)"""
    cases = []
    tg = L.targets()
    for human in (False, True):
        rng = random.Random(f"{seed}:{preset}:systematic:{human}")
        paths = [tg["in-abs"]] if preset in SINGLE_PATH else ([] if preset in NO_PATHS else [tg["in-abs"], tg["in-rel-sub"]])
        obj, _ = base_payload(preset, rng, L, human, paths, L.wd, extra)
        for kp in list(container_paths(obj)):
            for mt, val in (("delete", None), ("null", None), ("number", 7), ("array", []), ("object", {}), ("empty-string", "")):
                o = json.loads(json.dumps(obj))
                try:
                    if mt == "delete":
                        del_at(o, kp)
                    else:
                        set_at(o, kp, val)
                except Exception:
                    continue
                where = ".".join(str(k) for k in kp)
                cases.append({"key": f"{seed}:{preset}:systematic:{'human' if human else 'ai'}:{where}:{mt}", "cwd": L.cwd, "env": extra["env"],
                              "tags": [f"preset:{preset}", "layout:single", "systematic", "mut:field-" + mt, "kind:" + ("human" if human else "ai"), "via:argv"],
                              "stdin": False, "payload": json.dumps(o).encode(), "expected": None})
    return cases


def model_requests(L, preset, case):
    """driver request predicting the calls/entries of a valid case (None when not predictable)"""
    exp = case.get("expected")
    if not exp:
        return None
    dirty = [[root, Layout.DIRTY] for root in L.repos]
    req = {"op": "rt_handle", "fs": L.fs, "cwd": case["cwd"], "dirty": dirty, "stdin": "x"}
    if exp.get("mock"):
        req["args"] = ["mock_ai"] + case["paths"]
        # get_all_files_for_mock_ai: staged + unstaged tracked changes of the repository at cwd
        req["status_files"] = Layout.DIRTY if any(inside(r, case["cwd"]) for r in L.repos) else []
        req["run"] = "err"
        return req
    req["args"] = [preset, "--hook-input", "stdin" if case["stdin"] else "x"]
    if preset == "agent-v1":
        req["av1"] = tree_of(case["obj"])
    else:
        req["run"] = exp
    return req


def tree_of(v):
    if v is None:
        return None
    if isinstance(v, bool):
        return {"b": v}
    if isinstance(v, int):
        return {"i": v}
    if isinstance(v, str):
        return {"s": v}
    if isinstance(v, list):
        return {"a": [tree_of(x) for x in v]}
    return {"o": [[k, tree_of(x)] for k, x in v.items()]}


def scenario(seed, preset, layout_kind, n, tier, fixture_db):
    """runs n cases in one Env; returns list of (case-summary, observation, model request)"""
    out = []
    with e2e.Env() as env:
        extra_env = {"GIT_AI_AMP_THREADS_PATH": os.path.join(env.root, "home", "amp-threads"),
                     "GIT_AI_OPENCODE_STORAGE_PATH": os.path.join(env.root, "home", "opencode"),
                     "CODEX_HOME": os.path.join(env.root, "home", "codex"),
                     "XDG_DATA_HOME": os.path.join(env.root, "home", "xdg")}
        for d in extra_env.values():
            os.makedirs(d, exist_ok=True)
        extra = {"env": extra_env, "cursor_db": False}
        if fixture_db and os.path.exists(fixture_db):
            dst = os.path.join(env.root, "home", "cursor.vscdb")
            shutil.copyfile(fixture_db, dst)
            extra_env["GIT_AI_CURSOR_GLOBAL_DB_PATH"] = dst
            extra["cursor_db"] = True
        L = Layout(env, layout_kind)
        for case in gen_cases(seed, preset, layout_kind, L, n, tier, extra):
            obs = run_case(L, preset, case, None)
            if "skipped" in obs:
                out.append({"skipped": True, "tags": case["tags"]}); continue
            req = model_requests(L, preset, case)
            pl = case.get("payload") or b""
            related = None
            if obs["entries"]:
                ment = mentioned_paths(pl, case.get("paths", []), case["cwd"])
                related = {root: any(inside(root, m) for m in ment) for root in obs["entries"]}
            named_ok = None
            exp = case.get("expected")
            ps = None
            if exp and exp.get("mock"):
                ps = [p for p in case.get("paths", []) if not p.startswith("--")]
            elif exp:
                ps = exp.get("edited") if exp["kind"] != "human" else exp.get("will_edit")
            if ps and obs["entries"]:
                # a relative name is resolved against the work dir's repository / the announced dir / the cwd
                bases = list(L.repos) + [case["cwd"]] + ([exp["dir"]] if exp.get("dir") else [])
                cand = set()
                for pth in ps:
                    for b in ([""] if pth.startswith("/") else bases):
                        cand.add(physical(os.path.join(b, pth)))
                named_ok = {}
                for root, files in obs["entries"].items():
                    named_ok[root] = [f for f in files
                                      if not any(physical(os.path.join(root, f)) == c or inside(c, physical(os.path.join(root, f))) for c in cand)]
            out.append({"key": case["key"], "tags": case["tags"], "obs": obs, "req": req, "related": related, "named_bad": named_ok,
                        "witness": witness_of(L, preset, case, obs), "root": env.root,
                        "digest": hashlib.sha1((preset + layout_kind + case["cwd"] + repr(case.get("paths")) + str(case.get("stdin"))).encode() + pl).hexdigest()})
    return out


def corpus_scenario(layout_kind, items, fixture_db):
    """scripted regression cases: {"name","preset","layout","cwd","payload"|"paths","stdin","expect_entries"}
    with <ROOT> standing for the scratch root"""
    out = []
    with e2e.Env() as env:
        L = Layout(env, layout_kind)
        sub = lambda x: x.replace("<ROOT>", env.root).replace("<LONGPATH>", "/x" * 600000)
        for it in items:
            case = {"key": "corpus:" + it["name"], "cwd": sub(it.get("cwd", "<ROOT>/ws")), "env": {}, "tags": ["corpus", "preset:" + it["preset"], "layout:" + layout_kind],
                    "stdin": bool(it.get("stdin"))}
            if "paths" in it:
                case["paths"] = [sub(p) for p in it["paths"]]
            if "payload" in it:
                case["payload"] = sub(it["payload"] if isinstance(it["payload"], str) else json.dumps(it["payload"])).encode()
            obs = run_case(L, it["preset"], case, None)
            want = {sub(k): sorted(v) for k, v in it.get("expect_entries", {}).items()} if "expect_entries" in it else None
            out.append({"name": it["name"], "preset": it["preset"], "obs": obs, "want": want, "witness": witness_of(L, it["preset"], case, obs) if "skipped" not in obs else None})
    return out


def run_corpus(res, corpus_file):
    if not corpus_file or not os.path.exists(corpus_file):
        return
    items = [json.loads(l) for l in open(corpus_file) if l.strip()]
    by = {}
    for it in items:
        by.setdefault(it["layout"], []).append(it)
    fixture = os.path.join(C.REPO, "tests", "fixtures", "cursor_test.vscdb")
    with concurrent.futures.ThreadPoolExecutor(8) as ex:
        outs = list(ex.map(lambda kv: corpus_scenario(kv[0], kv[1], fixture), by.items()))
    for out in outs:
        for r in out:
            obs = r["obs"]
            if "skipped" in obs:
                continue
            res.count_case("corpus:" + r["name"]); res.tag(["e2e:corpus"])
            w, preset = r["witness"], r["preset"]
            if obs["hung"]:
                res.oracle_failure(f"hang:{preset}", w, "corpus case did not finish")
            elif obs["rc"] != 0:
                res.oracle_failure(f"exit-nonzero:{preset}", w, f"corpus case exited with status {obs['rc']}")
            if obs["panic"]:
                res.oracle_failure(f"panic:{preset}", w, "corpus case panicked")
            if obs["unreadable"]:
                res.oracle_failure("working-log-unreadable", w, "corpus case left an unparsable working log")
            if r["want"] is not None and r["want"] != obs["entries"]:
                w2 = dict(w); w2["expected_entries"] = r["want"]
                res.oracle_failure("corpus-regression:" + r["name"], w2, "entries recorded differ from the recorded expectation")


def fuzz(res, seed, presets, per, tier, corpus_file=None, label="e2e"):
    run_corpus(res, corpus_file)
    fixture = os.path.join(C.REPO, "tests", "fixtures", "cursor_test.vscdb")
    jobs = [(p, l) for p in presets for l in LAYOUTS]
    results = []
    t0 = time.time()
    with concurrent.futures.ThreadPoolExecutor(16) as ex:
        futs = {ex.submit(scenario, seed, p, l, per, tier, fixture): (p, l) for p, l in jobs}
        for f in concurrent.futures.as_completed(futs):
            try:
                results.extend(f.result())
            except Exception as e:
                res.broken_tie(f"{label}:scenario {futs[f]}", f"{type(e).__name__}: {e}")
    # ---- model predictions for valid cases, one driver batch
    idx = [k for k, r in enumerate(results) if r.get("req")]
    preds = C.run_driver([results[k]["req"] for k in idx]) if idx else []
    pred_of = dict(zip(idx, preds))
    stats = {"cases": 0, "skipped": 0, "valid": 0, "with_entries": 0, "model_compared": 0, "model_disagreements": 0,
             "max_wall_s": 0.0, "max_cpu_s": 0.0, "exit_sites": {}}
    disagreements = []
    for k, r in enumerate(results):
        if r.get("skipped"):
            stats["skipped"] += 1; res.tag(["e2e:skipped-undeliverable"]); continue
        stats["cases"] += 1
        obs, tags = r["obs"], r["tags"]
        res.count_case(r["digest"])
        res.tag(["e2e:" + t for t in tags if not t.startswith("mut=")])
        preset = next(t[7:] for t in tags if t.startswith("preset:"))
        stats["max_wall_s"] = max(stats["max_wall_s"], round(obs["wall"], 2))
        stats["max_cpu_s"] = max(stats["max_cpu_s"], obs.get("cpu", 0.0))
        w = r["witness"]
        if obs["hung"]:
            res.oracle_failure(f"hang:{preset}", w, f"checkpoint {preset} used more than {HANG_S:.0f} s of CPU or did not finish within {WALL_LIMIT_S:.0f} s")
        elif obs["rc"] != 0:
            res.oracle_failure(f"exit-nonzero:{preset}", w, f"checkpoint {preset} exited with status {obs['rc']}")
        if obs["panic"]:
            res.oracle_failure(f"panic:{preset}", w, f"checkpoint {preset} panicked")
        if obs["unreadable"]:
            w2 = dict(w); w2["unreadable"] = obs["unreadable"][:3]
            res.oracle_failure("working-log-unreadable", w2, "a checkpoints.jsonl line does not parse after the run")
        if obs["entries"]:
            stats["with_entries"] += 1
            res.tag(["e2e:entries-written"])
            for root, rel in (r["related"] or {}).items():
                if not rel:
                    res.oracle_failure("entry-in-unrelated-repo", w, f"entries written in {root.replace(r['root'], '<ROOT>')}, which contains neither the work dir nor any path of the payload")
            for root, bad in (r["named_bad"] or {}).items():
                if bad:
                    w2 = dict(w); w2["unnamed"] = {root.replace(r["root"], "<ROOT>"): bad}
                    sig = "nested-file-recorded-in-outer" if any(b.startswith("in/") for b in bad) else "unnamed-file-recorded"
                    res.oracle_failure(sig, w2, "an entry was recorded for a file the payload did not name")
        if "valid" in tags:
            stats["valid"] += 1
        if k in pred_of:
            m = pred_of[k]
            if "driver_error" in m:
                disagreements.append({"case": w, "model": m}); continue
            stats["model_compared"] += 1
            stats["exit_sites"][m["exit"]] = stats["exit_sites"].get(m["exit"], 0) + 1
            res.tag(["e2e:model-exit:" + m["exit"]])
            want = {}
            for c in m["calls"]:
                if c.get("entries"):
                    want.setdefault(c["root"], set()).update(c["entries"])
            got = {root: set(v) for root, v in obs["entries"].items()}
            if {a: sorted(b) for a, b in want.items()} != {a: sorted(b) for a, b in got.items()}:
                stats["model_disagreements"] += 1
                disagreements.append({"case": w, "model_calls": m["calls"], "model_exit": m["exit"],
                                      "observed": {a.replace(r["root"], "<ROOT>"): sorted(b) for a, b in got.items()}})
    name = f"correspondence:{label}:handle_checkpoint (model-predicted entries per repository = observed)"
    res.obligation(name, not disagreements, "correspondence")
    if disagreements:
        res.broken_tie(name, {"disagreements": len(disagreements), "of": stats["model_compared"], "first": disagreements[:2]})
    for r in results:
        if not r.get("skipped") and "valid" in r["tags"] and r["obs"]["entries"]:
            res.sample({"e2e": {"preset_layout": [t for t in r["tags"] if t.startswith(("preset:", "layout:"))],
                                "payload_head": r["witness"]["payload_head"][:300], "entries": r["witness"]["observed"]["entries"]}}, cap=6)
            break
    stats["wall_s"] = round(time.time() - t0, 1)
    res.extra.setdefault("e2e", {})[label] = stats
    res.extra["ten_presets_level"] = ("correspondence/fuzz only: claude, codex, gemini, continue-cli, cursor, github-copilot, amp, "
                                      "ai_tab, droid, opencode decoders are not modelled in Lean")
    return stats
