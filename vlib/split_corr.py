"""End-to-end correspondence for the commit-time split (Model/Split3.lean) and the line-level
working-log reduction (`from_just_working_log`): from the *observed* working log just before a
commit and the hunks real git reports, the Lean model predicts the note's line lists and the new
INITIAL; the prediction is compared with what the binary wrote."""
import json, re

from . import common as C, sysrun as S, e2e

HUNK = S.HUNK_RE


def workdir_hunks(repo, base):
    """Hunks of the working tree relative to commit `base`, per file: [[old_count, new_start, new_count], …]
    as plain `git diff -U0` prints them (bodies consumed by their counts); an untracked file is one
    hunk adding every line."""
    rc, names, _ = repo.plain_git("diff", "--name-only", "-z", "--no-renames", base)
    res = {}
    for p in [n for n in names.split("\0") if n]:
        rc, out, _ = repo.plain_git("-c", "core.quotePath=false", "diff", "-U0", "--no-color", "--no-renames", "--no-ext-diff",
                                    "--no-textconv", base, "--", p)
        hs = []
        lines = out.split("\n")
        i = 0
        while i < len(lines):
            m = HUNK.match(lines[i])
            if m:
                oc = int(m.group(2)) if m.group(2) is not None else 1
                ns = int(m.group(3)); nc = int(m.group(4)) if m.group(4) is not None else 1
                hs.append([oc, ns, nc])
                i += 1
                o, n = oc, nc
                while i < len(lines) and (o > 0 or n > 0):
                    c = lines[i][:1]
                    if c == "-" and o > 0: o -= 1
                    elif c == "+" and n > 0: n -= 1
                    elif c == "\\": pass
                    else: break
                    i += 1
                continue
            i += 1
        if hs:
            res[p] = hs
    # untracked files are not reported by git diff: a file that is not in `base`'s tree but exists in
    # the working directory is wholly an unstaged pure insertion (lines as Rust's str::lines counts them)
    rc, names, _ = repo.plain_git("ls-files", "-z", "--others", "--exclude-standard")
    import os as _os
    for p in [n for n in names.split("\0") if n]:
        if p in res:
            continue
        rc2, _o, _e = repo.plain_git("cat-file", "-e", f"{base}:{p}")
        if rc2 == 0:
            continue
        try:
            data = open(_os.path.join(repo.path, p), encoding="utf-8").read()
        except Exception:
            continue
        n = len(data.split("\n")) - (1 if data.endswith("\n") else 0) if data else 0
        if n > 0:
            res[p] = [[0, 1, n]]
    return res


def workdir_added(repo, base):
    """(all, pure) added lines of the working tree relative to commit `base`, per file."""
    all_, pure = {}, {}
    for p, hs in workdir_hunks(repo, base).items():
        a, ins = set(), set()
        for oc, ns, nc in hs:
            a.update(range(ns, ns + nc))
            if oc == 0:
                ins.update(range(ns, ns + nc))
        all_[p], pure[p] = a, ins
    return all_, pure


def replaced_committed_lines(repo, parent, sha):
    """Per file: the commit line numbers that the commit `sha` adds AND that an unstaged hunk of the
    working tree replaces offset for offset (the k-th added line of a hunk stands for the k-th line it
    removes) — the lines `to_authorship_log_and_initial_working_log` credits to the commit under the
    author of their modified working-tree version."""
    added = S.added_lines(repo, parent, sha)
    res = {}
    for p, hs in workdir_hunks(repo, sha).items():
        delta, got = 0, set()
        for oc, ns, nc in hs:
            if nc > 0:
                for k in range(min(oc, nc)):
                    c = ns + k + delta
                    if c in added.get(p, set()):
                        got.add(c)
            delta += oc - nc
        if got:
            res[p] = got
    return res


def line_attrs_from_working_log(initial, checkpoints):
    """Line-level `from_just_working_log`: INITIAL underneath, then every checkpoint entry in order;
    an entry with AI line attributions replaces the file's attributions, an entry without any
    clears them (the fixed behaviour)."""
    attrs = {}
    if initial:
        for p, las in (initial.get("files") or {}).items():
            attrs[p] = [(la["start_line"], la["end_line"], la["author_id"]) for la in las]
    for cp in checkpoints:
        for e in cp.get("entries", []):
            las = e.get("line_attributions") or []
            if las:
                attrs[e["file"]] = [(la["start_line"], la["end_line"], la["author_id"]) for la in las]
            else:
                attrs.pop(e["file"], None)
    return attrs


def snapshot_before_commit(repo):
    """Flush pending human edits into the working log and read it."""
    repo.ai("checkpoint")
    base = repo.head()
    initial = repo.initial()
    # INITIAL records the content its line numbers refer to (file_blobs). Where that content is not
    # the file's current content the binary carries the numbers over through a diff, which this
    # line-level reduction cannot reproduce: such files are left out of the comparison.
    moved = set()
    import os as _os
    for p, sha in ((initial or {}).get("file_blobs") or {}).items():
        try:
            snap = open(_os.path.join(repo.ai_dir(), "working_logs", base or "initial", "blobs", sha), encoding="utf-8").read()
            cur = repo.read(p)
        except Exception:
            moved.add(p); continue
        if snap != cur:
            moved.add(p)
    return {"initial": initial, "checkpoints": repo.checkpoints(), "base": base, "initial_moved": sorted(moved)}


def requests_after_commit(repo, snap, parent, sha):
    """Driver requests (one per attributed file) and the observed outcome per file."""
    attrs = line_attrs_from_working_log(snap["initial"], snap["checkpoints"])
    have_entry = {e["file"] for cp in snap["checkpoints"] for e in cp.get("entries", [])}
    for p in snap.get("initial_moved", []):
        if p not in have_entry:
            attrs.pop(p, None)
    committed = S.added_lines(repo, parent, sha) if parent else S.added_lines(repo, "4b825dc642cb6eb9a060e54bf8d69288fbee4904", sha)
    hunks = workdir_hunks(repo, sha)
    note = repo.note(sha)
    new_initial = repo.initial(sha) or {"files": {}}
    reqs = []
    for p, las in sorted(attrs.items()):
        req = {"op": "s3_split", "attrs": [{"s": s, "e": e, "author": a} for (s, e, a) in las],
               "committed": sorted(committed.get(p, [])), "hunks": hunks.get(p, [])}
        obs_c = {}
        if note:
            for (fp, h, rs) in note["entries"]:
                if fp == p:
                    obs_c.setdefault(h, []).extend(e2e.parse_ranges(rs))
        obs_u = {}
        for la in (new_initial.get("files") or {}).get(p, []):
            obs_u.setdefault(la["author_id"], []).extend(range(la["start_line"], la["end_line"] + 1))
        obs = {"committed": {h: sorted(set(v)) for h, v in obs_c.items()}, "uncommitted": {h: sorted(set(v)) for h, v in obs_u.items()}}
        reqs.append((p, req, obs))
    return reqs


def compare(reqs):
    """Run the driver; returns list of disagreements (path, request, observed, predicted)."""
    if not reqs:
        return 0, []
    resp = C.run_driver([r for (_, r, _) in reqs])
    bad = []
    for (p, req, obs), pred in zip(reqs, resp):
        pc = {k: v for k, v in (pred.get("committed") or {}).items() if v}
        pu = {k: v for k, v in (pred.get("uncommitted") or {}).items() if v}
        if pc != {k: v for k, v in obs["committed"].items() if v} or pu != {k: v for k, v in obs["uncommitted"].items() if v}:
            bad.append({"path": p, "request": req, "observed": obs, "predicted": {"committed": pc, "uncommitted": pu}})
    return len(reqs), bad
