"""Multi-file scenarios for the history model with a shared working log (Model/SysMulti.lean, driver op
`sysm_run`): translation of explicit scenario steps (vlib/sysrun.py) into ONE request covering all files,
comparison of the predicted note lines of every (file, commit) — and of the shape of the working log right
before every commit — with what the binary wrote, and a generator of multi-file histories (one agent
checkpoint covering several files, then checkpoints touching only some of them).

Additional step kind understood here (and by `RunnerM`):
  {"op":"edit_multi","who":<session>,"files":{path: [[text,ghost,uid],...], ...}}   the agent writes all
        these files, then reports them with ONE AI checkpoint naming all of them
"""
import os

from . import sysrun as S


class RunnerM(S.Runner):
    """Runner that knows `edit_multi` and `ai_checkpoint_again`, and records the working log (checkpoints.jsonl)
    as it is right before every commit step."""

    def __init__(self, env, name="r", file_opts=None):
        super().__init__(env, name, file_opts)
        self.logs_before_commit = []

    def step(self, st):
        op = st["op"]
        if op == "edit_multi":
            who = st["who"]
            for path, lines in st["files"].items():
                self.ghost[path] = [list(l) for l in lines]
                o = self.opts(path)
                self.repo.write(path, S.content_of(lines, o.get("final_newline", True), o.get("crlf", False)))
            res = self.repo.ai_checkpoint(who, list(st["files"]), tool=S.TOOL)
            self.log.append({"step": {"op": op, "who": who, "paths": list(st["files"])}, "rc": res[0]})
            return res
        if op == "ai_checkpoint_again":
            res = self.repo.ai_checkpoint(st["who"], [st["path"]], tool=S.TOOL)
            self.log.append({"step": st, "rc": res[0]})
            return res
        if op == "commit":
            try:
                self.logs_before_commit.append(log_shape(self.repo.checkpoints()))
            except Exception as ex:  # unreadable log: leave the comparison to the notes
                self.logs_before_commit.append({"error": repr(ex)})
        return super().step(st)


def log_shape(checkpoints):
    """[(kind, {file: has_char_ranges or None})] of a working log read from checkpoints.jsonl. `None` for
    an entry without any line attribution (nothing a later checkpoint could lose)."""
    out = []
    for c in checkpoints:
        kind = "human" if c.get("kind") in ("human", "Human") else "ai"
        files = {}
        for e in c.get("entries", []):
            has_line = bool(e.get("line_attributions"))
            files[e["file"]] = (bool(e.get("attributions")) if has_line else None)
        out.append([kind, files])
    return out


# ------------------------------------------------------------------ scenario -> sysm_run request
def sysm_request(sc, commit_ok=None):
    """One `sysm_run` request for the whole scenario. Returns (request, path numbering, session numbering,
    number of model commits). Line ids = indices of distinct whitespace-normalised texts."""
    ids, sess, pids = {}, {}, {}

    def lid(t):
        k = S.norm_text(t)
        if k not in ids:
            ids[k] = len(ids) + 1
        return ids[k]

    def sid(s):
        if s not in sess:
            sess[s] = len(sess) + 1
        return sess[s]

    def pid(p):
        if p not in pids:
            pids[p] = len(pids)
        return pids[p]

    heads = {}          # pid -> ids at the base commit
    cur = {}            # pid -> current content (ids)
    ops = []
    base_done = False
    ncommit = 0
    made = 0
    pending_pre = None  # index in ops of an `hcp` naming files that nothing has followed yet

    def ys_of(lines):
        return [lid(l[0]) for l in lines]

    def report(s, edits):
        """the agent's writes + checkpoint; merged with a directly preceding pre-edit checkpoint naming the
        same files into one `ai` operation (the agent protocol the theorems speak about)"""
        nonlocal pending_pre
        named = sorted({e[0] for e in edits})
        if pending_pre is not None and pending_pre == len(ops) - 1 and sorted(set(ops[-1].get("fs", []))) == named:
            ops[-1] = {"k": "ai", "s": s, "edits": edits}
        else:
            ops.append({"k": "report", "s": s, "edits": edits})
        pending_pre = None

    for st in sc["steps"]:
        op = st["op"]
        if op == "edit":
            p = pid(st["path"])
            ys = ys_of(st["lines"])
            if not base_done:
                heads[p] = ys
                cur[p] = ys
                continue
            heads.setdefault(p, [])
            cur[p] = ys
            if st["who"] == "human":
                ops.append({"k": "human", "f": p, "ys": ys})
            else:
                report(sid(st["who"]), [[p, ys]])
        elif op == "edit_multi":
            edits = []
            for path, lines in st["files"].items():
                p = pid(path)
                heads.setdefault(p, [])
                cur[p] = ys_of(lines)
                edits.append([p, cur[p]])
            if base_done:
                report(sid(st["who"]), edits)
        elif op == "ai_checkpoint_again":
            p = pid(st["path"])
            heads.setdefault(p, [])
            if base_done:
                report(sid(st["who"]), [[p, cur.get(p, [])]])
        elif op == "human_checkpoint":
            if base_done:
                fs = [pid(p) for p in (st.get("paths") or [])]
                for p in fs:
                    heads.setdefault(p, [])
                ops.append({"k": "hcp", "fs": fs})
                pending_pre = len(ops) - 1 if fs else None
        elif op == "checkpoint":
            if base_done:
                ops.append({"k": "checkpoint"})
        elif op == "stage_content":
            p = pid(st["path"])
            heads.setdefault(p, [])
            ops.append({"k": "stage", "f": p, "ys": ys_of(st["lines"])})
        elif op == "commit":
            ok = commit_ok[ncommit] if commit_ok is not None and ncommit < len(commit_ok) else True
            ncommit += 1
            if not base_done:
                base_done = True
                continue
            mode = st.get("add", "paths" if st.get("paths") else "all")
            if mode == "all":
                ops.append({"k": "stageAll", "fs": sorted(pids.values())})
            elif mode == "paths":
                ops.append({"k": "stageAll", "fs": [pid(p) for p in st["paths"]]})
            if ok:
                ops.append({"k": "commit"})
                made += 1
        elif op == "git" and st.get("args", [None])[0] == "stash" and (st["args"] + [""])[1] not in ("pop", "apply"):
            # the stash pre-command hook takes a human checkpoint naming no file, with the pre-commit fast paths
            # (files without any AI attribution get no entry there — not modelled: see `stash_in`)
            if base_done:
                ops.append({"k": "hcp", "fs": []})
        # other read-only git / git-ai commands: nothing
    paths = sorted(pids.values())
    req = {"op": "sysm_run", "paths": paths, "heads": [heads.get(p, []) for p in paths], "ops": ops}
    return req, pids, sess, made


def compare_response(req, pids, sess, resp, commits_observed, skip_paths=()):
    """Returns (n_compared, note disagreements, isolation failures) for one scenario."""
    inv = {v: S.hash_of(k) for k, v in sess.items()}
    if not isinstance(resp, dict) or "files" not in resp:
        return 0, [{"driver": resp, "request": req}], []
    byp = {f["path"]: f for f in resp["files"]}
    bad, iso, n = [], [], 0
    for path, p in sorted(pids.items()):
        f = byp.get(p)
        if f is None:
            bad.append({"path": path, "driver": "no such path"}); continue
        if f.get("one_file_agrees") is False:
            iso.append({"path": path, "request": req})
        if path in skip_paths:
            continue
        notes = f["notes"]
        for k, obs in enumerate(commits_observed):
            pred = {str(l): inv[s] for (l, s) in notes[k]} if k < len(notes) else {}
            got = {str(l): h for l, h in (obs.get(path) or {}).items()}
            n += 1
            if pred != got:
                bad.append({"path": path, "commit_index": k + 1, "predicted": pred, "observed": got, "request": req})
    return n, bad, iso


def stash_in(sc):
    return any(st["op"] == "git" and st.get("args", [None])[0] == "stash" for st in sc["steps"])


def compare_logs(pids, resp, logs_real, commit_ok):
    """Shape of the working log right before every successful non-base commit: model vs checkpoints.jsonl.
    Same checkpoints in the same order (human / AI), each with entries for the same files; and an entry that
    carries AI lines has its character-level ranges in the binary's log iff the model did not clear them.
    Returns (n_compared, disagreements)."""
    inv = {v: k for k, v in pids.items()}
    model = resp.get("logs_before_commit") if isinstance(resp, dict) else None
    if model is None:
        return 0, []
    out, k, n = [], 0, 0
    for j, shape in enumerate(logs_real):
        if j == 0 or not (commit_ok[j] if j < len(commit_ok) else True):
            continue
        if k >= len(model):
            out.append({"commit_step": j, "what": "model made fewer commits"})
            break
        m = model[k]
        k += 1
        if isinstance(shape, dict):
            continue
        n += 1
        real = [[kind, dict(files)] for kind, files in shape]
        mod = [["human" if c["who"] is None else "ai", {inv.get(e["file"], e["file"]): e for e in c["entries"]}] for c in m]
        if [[a, sorted(b)] for a, b in real] != [[a, sorted(b)] for a, b in mod]:
            out.append({"commit_step": j, "what": "checkpoints/files differ",
                        "binary": [[a, sorted(b)] for a, b in real], "model": [[a, sorted(b)] for a, b in mod]})
            continue
        for i, ((_, rf), (_, mf)) in enumerate(zip(real, mod)):
            for f, e in mf.items():
                if e["ai"] and rf[f] != (not e["pruned"]):
                    out.append({"commit_step": j, "checkpoint": i, "file": f, "what": "character ranges kept/cleared differ",
                                "binary_has_ranges": rf[f], "model_cleared": e["pruned"]})
    return n, out


def sysm_compare(sc, commits_observed, run_driver, skip_paths=(), commit_ok=None):
    """commits_observed: list (one per non-base commit) of {path: {line: hash}}."""
    req, pids, sess, made = sysm_request(sc, commit_ok=commit_ok)
    return compare_response(req, pids, sess, run_driver([req])[0], commits_observed, skip_paths)


# ------------------------------------------------------------------ generator: multi-file histories
def gen_edit_plain(rng, world, path, who):
    """one edit by `who` in world.files[path]: insert / append / replace / delete / rewrite or delete all
    lines of other AI sessions (the line-identity-preserving kinds of sysrun.gen_edit: no whitespace-only
    and no intra-line changes, whose token-level treatment is C16's subject)"""
    ghost = None if who == "human" else who
    lines = world.files.setdefault(path, [])
    n = len(lines)
    kind = rng.pick(["insert", "insert", "append", "replace", "delete"]) if lines else "insert"
    others = [i for i, l in enumerate(lines) if l[1] != ghost and l[1] is not None]
    if others and rng.chance(1, 8):
        kind = rng.pick(["rewrite_all_ai", "delete_all_ai"])
        if kind == "rewrite_all_ai":
            for i in others:
                lines[i] = world.fresh(S.gen_text(rng, world, "plain"), ghost)
        else:
            for i in reversed(others):
                del lines[i]
        return kind
    if kind in ("insert", "append"):
        pos = n if kind == "append" else rng.below(n + 1)
        lines[pos:pos] = [world.fresh(S.gen_text(rng, world, "plain"), ghost) for _ in range(1 + rng.below(3))]
    elif kind == "replace":
        pos = rng.below(n)
        k = 1 + rng.below(min(3, n - pos))
        lines[pos:pos + k] = [world.fresh(S.gen_text(rng, world, "plain"), ghost) for _ in range(1 + rng.below(3))]
    elif kind == "delete":
        if n <= 2:
            return gen_edit_plain_insert(rng, world, path, ghost)
        pos = rng.below(n)
        del lines[pos:pos + 1 + rng.below(min(2, n - pos))]
    return kind


def gen_edit_plain_insert(rng, world, path, ghost):
    lines = world.files[path]
    pos = rng.below(len(lines) + 1)
    lines[pos:pos] = [world.fresh(S.gen_text(rng, world, "plain"), ghost)]
    return "insert"


MULTI_NAMES = ["m1.txt", "src/m2.rs", "docs/m 3.md"]


def gen_multi(seed):
    """2-3 files, 1-2 sessions, 1-2 rounds. Every round: an agent edit covering two or three files reported by
    ONE checkpoint (after the pre-edit checkpoint naming these files); then 1-3 steps each touching ONE file —
    a person's edit (sometimes followed by a plain checkpoint), or an agent edit of that one file — possibly a
    person typing in another file while the agent runs; then a commit staging everything or a subset."""
    rng = S.Rng(seed ^ 0x3F11E5)
    w = S.World()
    names = MULTI_NAMES[: 2 + rng.below(2)]
    steps = []
    for n in names:
        w.files[n] = [w.fresh(S.gen_text(rng, w, "plain"), None) for _ in range(3 + rng.below(4))]
        steps.append({"op": "edit", "who": "human", "path": n, "lines": [list(l) for l in w.files[n]]})
    steps.append({"op": "commit", "msg": "base"})
    sessions = ["s1", "s2"][: 1 + rng.below(2)]
    rounds = 1 + rng.below(2)
    for rd in range(rounds):
        if rng.chance(1, 3):
            # a person's unreported edit before the agent starts
            p = rng.pick(names)
            k = gen_edit_plain(rng, w, p, "human")
            steps.append({"op": "edit", "who": "human", "path": p, "kind": k, "lines": [list(l) for l in w.files[p]]})
        who = rng.pick(sessions)
        cover = list(names) if rng.chance(1, 2) else sorted(rng_sample(rng, names, 2))
        steps.append({"op": "human_checkpoint", "paths": list(cover)})
        files = {}
        for p in cover:
            gen_edit_plain_insert(rng, w, p, who) if rng.chance(1, 2) else gen_edit_plain(rng, w, p, who)
            files[p] = [list(l) for l in w.files[p]]
        steps.append({"op": "edit_multi", "who": who, "files": files, "kind": f"multi{len(cover)}"})
        order = list(cover)
        # then steps touching one file at a time, starting with one of the covered files
        first = rng.pick(order)
        rest = [p for p in names if p != first]
        seq = [first] + [rng.pick(rest if rng.chance(2, 3) else names) for _ in range(rng.below(3))]
        for p in seq:
            actor = rng.pick(sessions + ["human", "human"])
            if actor == "human":
                k = gen_edit_plain(rng, w, p, "human")
                steps.append({"op": "edit", "who": "human", "path": p, "kind": k, "lines": [list(l) for l in w.files[p]]})
                if rng.chance(1, 2):
                    steps.append({"op": "checkpoint"})
            else:
                steps.append({"op": "human_checkpoint", "paths": [p]})
                others = [q for q in names if q != p]
                if rng.chance(1, 5):
                    q = rng.pick(others)
                    k2 = gen_edit_plain(rng, w, q, "human")
                    steps.append({"op": "edit", "who": "human", "path": q, "kind": k2 + "/during-agent-run",
                                  "lines": [list(l) for l in w.files[q]]})
                k = gen_edit_plain(rng, w, p, actor)
                steps.append({"op": "edit", "who": actor, "path": p, "kind": k, "lines": [list(l) for l in w.files[p]]})
        if rng.chance(1, 4) and rd + 1 < rounds:
            sub = sorted(rng_sample(rng, names, 1 + rng.below(len(names) - 1)))
            steps.append({"op": "commit", "msg": f"round {rd} (subset)", "paths": sub})
        else:
            steps.append({"op": "commit", "msg": f"round {rd}"})
    return {"seed": seed, "style": "multi-file", "file_opts": {}, "steps": steps}


def rng_sample(rng, xs, k):
    xs = list(xs)
    out = []
    for _ in range(min(k, len(xs))):
        out.append(xs.pop(rng.below(len(xs))))
    return out


def split_multi_by_file(st):
    """an `edit_multi` step as consecutive one-file agent edits of the same session (one checkpoint each)"""
    return [{"op": "edit", "who": st["who"], "path": p, "kind": "multi/part", "lines": [list(l) for l in lines]}
            for p, lines in st["files"].items()]
