"""Scenario machinery for the history properties (C01, C02, C03, C04, C14).

The runner keeps its own *ghost* truth next to the real repository: for every line of every
file in the working tree, who made the last substantive (non-whitespace) change
(None = a person, or an AI session name) and a unique id. Steps are explicit (full file
contents with ghost labels), so a scenario replays exactly from its JSON form.

Step kinds (dicts):
  {"op":"edit","who":<session|"human">,"path":p,"lines":[[text,ghost,uid],...]}   write p, then
        an AI checkpoint for `who` if it is a session (agents report after editing)
  {"op":"delete_file","who":...,"path":p}
  {"op":"human_checkpoint"}                       agents' pre-edit hook / explicit checkpoint
  {"op":"commit","msg":m,"paths":None|[...]}      add (-A or the paths) + commit through the proxy
  {"op":"git","args":[...]}                       any git command through the proxy
  {"op":"ai","args":[...]}                        any git-ai command
"""
import json, os, re

from . import e2e

TOOL = "mock_agent"


def hash_of(session):
    return e2e.short_hash(session, TOOL)


# ------------------------------------------------------------------ rng (deterministic)
class Rng:
    def __init__(self, seed):
        z = (seed + 0x1234567) & (2**64 - 1)
        z = ((z ^ (z >> 30)) * 0xBF58476D1CE4E5B9) & (2**64 - 1)
        z = ((z ^ (z >> 27)) * 0x94D049BB133111EB) & (2**64 - 1)
        self.s = z ^ (z >> 31)

    def next(self):
        self.s = (self.s + 0x9E3779B97F4A7C15) & (2**64 - 1)
        z = self.s
        z = ((z ^ (z >> 30)) * 0xBF58476D1CE4E5B9) & (2**64 - 1)
        z = ((z ^ (z >> 27)) * 0x94D049BB133111EB) & (2**64 - 1)
        return z ^ (z >> 31)

    def below(self, n):
        return self.next() % n if n > 0 else 0

    def chance(self, a, b):
        return self.below(b) < a

    def pick(self, xs):
        return xs[self.below(len(xs))]


# ------------------------------------------------------------------ ghost world
class World:
    """The runner's truth about the working tree."""

    def __init__(self):
        self.files = {}      # path -> list of [text, ghost, uid]
        self.uid = 0

    def fresh(self, text, ghost):
        self.uid += 1
        return [text, ghost, self.uid]

    def clone_files(self):
        return {p: [list(l) for l in ls] for p, ls in self.files.items()}


SPECIAL_TEXTS = ["++ x{u}", "-- a/y{u}", "@@ -1 +1 @@ {u}", "+++ b/z{u}", "--- a/z{u}", "\\ No newline {u}",
                 "diff --git a/q b/q {u}", "  indented {u}", "\ttab {u}", "héllo wörld {u}", "日本語 {u}", "x = \"q{u}\"",
                 "{u} trailing  "]


def gen_text(rng, world, style):
    u = world.uid + 1
    if style == "syntax" and rng.chance(1, 2):
        return rng.pick(SPECIAL_TEXTS).format(u=u)
    return f"line {u} " + rng.pick(["alpha", "beta", "gamma = 1;", "fn f() {", "}", "// note", "return x;"])


def gen_edit(rng, world, path, who, style="plain"):
    """Mutate world.files[path] with one edit by `who` (session or 'human'); returns kind."""
    ghost = None if who == "human" else who
    lines = world.files.setdefault(path, [])
    kinds = ["insert", "insert", "replace", "delete", "modify", "reindent", "append"]
    kind = rng.pick(kinds) if lines else "insert"
    n = len(lines)
    others = [i for i, l in enumerate(lines) if l[1] != ghost and l[1] is not None]
    if others and rng.chance(1, 6):
        # the editor rewrites or deletes EVERY line currently owned by an AI session other than itself
        # (for a person: every AI line of the file)
        kind = rng.pick(["rewrite_all_ai", "delete_all_ai"])
        if kind == "rewrite_all_ai":
            for i in others:
                lines[i] = world.fresh(gen_text(rng, world, style), ghost)
        else:
            for i in reversed(others):
                del lines[i]
        return kind
    if kind in ("insert", "append"):
        pos = n if kind == "append" else rng.below(n + 1)
        k = 1 + rng.below(3)
        new = [world.fresh(gen_text(rng, world, style), ghost) for _ in range(k)]
        lines[pos:pos] = new
    elif kind == "replace":
        pos = rng.below(n)
        k = 1 + rng.below(min(3, n - pos))
        m = 1 + rng.below(3)
        lines[pos:pos + k] = [world.fresh(gen_text(rng, world, style), ghost) for _ in range(m)]
    elif kind == "delete":
        pos = rng.below(n)
        k = 1 + rng.below(min(2, n - pos))
        del lines[pos:pos + k]
    elif kind == "modify":
        # intra-line substantive change: the line keeps its identity, the editor becomes its author
        pos = rng.below(n)
        world.uid += 1
        lines[pos] = [lines[pos][0] + f" mod{world.uid}", ghost, lines[pos][2]]
    elif kind == "reindent":
        # whitespace-only change: author unchanged
        pos = rng.below(n)
        lines[pos] = ["    " + lines[pos][0].lstrip(), lines[pos][1], lines[pos][2]]
    return kind


def content_of(lines, final_newline=True, crlf=False):
    eol = "\r\n" if crlf else "\n"
    s = eol.join(l[0] for l in lines)
    if lines and final_newline:
        s += eol
    return s


# ------------------------------------------------------------------ executing steps
class Runner:
    def __init__(self, env, name="r", file_opts=None):
        self.env = env
        self.repo = env.repo(name)
        self.ghost = {}          # path -> list of [text, ghost, uid] (working tree truth)
        self.index = {}          # path -> list of [text, ghost, uid] (what is staged)
        self.commits = []        # (sha, {path: lines at commit})
        self.file_opts = file_opts or {}
        self.log = []            # executed steps with results
        self.wrote = {}          # session -> set of line texts it reported writing (C03)
        self.neigh = {}          # (session, normalised text) -> (normalised text above, below) when the session wrote it
        self.commit_ok = []      # per commit step: did git create a commit?
        self.appended_after = {} # path -> uids of lines that were the unterminated last line of a file kept without
                                 # a final newline when text was appended after them (known finding, append half)
        self.was_last = {}       # path -> uids that were, at some point, the last line of a file kept
                                 # without a final newline (their line ending changes when lines are
                                 # added or removed below them)

    def opts(self, path):
        return self.file_opts.get(path, {})

    def step(self, st):
        op = st["op"]
        r = self.repo
        res = None
        if op == "edit":
            path, who = st["path"], st["who"]
            old = {l[2]: l for l in self.ghost.get(path, [])}
            prev = self.ghost.get(path, [])
            o = self.opts(path)
            if prev and st["lines"] and not o.get("final_newline", True):
                # the unterminated last line is still there and is no longer the last line: text was appended
                # after it (it gained a terminating newline)
                uids = [l[2] for l in st["lines"]]
                if prev[-1][2] in uids and uids[-1] != prev[-1][2]:
                    self.appended_after.setdefault(path, set()).add(prev[-1][2])
            self.ghost[path] = [list(l) for l in st["lines"]]
            if st["lines"] and not o.get("final_newline", True):
                self.was_last.setdefault(path, set()).add(st["lines"][-1][2])
            r.write(path, content_of(st["lines"], o.get("final_newline", True), o.get("crlf", False)))
            if who != "human":
                w = self.wrote.setdefault(who, set())
                nt = lambda t: "".join(t.split())
                for k_, l in enumerate(st["lines"]):
                    if l[1] == who and (l[2] not in old or old[l[2]][0] != l[0]):
                        w.add(l[0])
                        self.neigh[(who, nt(l[0]))] = (nt(st["lines"][k_ - 1][0]) if k_ > 0 else None,
                                                       nt(st["lines"][k_ + 1][0]) if k_ + 1 < len(st["lines"]) else None)
                res = r.ai_checkpoint(who, [path], tool=TOOL)
        elif op == "delete_file":
            self.ghost.pop(st["path"], None)
            try:
                os.unlink(os.path.join(r.path, st["path"]))
            except FileNotFoundError:
                pass
            if st["who"] != "human":
                res = r.ai_checkpoint(st["who"], [st["path"]], tool=TOOL)
        elif op == "human_checkpoint":
            res = r.human_checkpoint(st.get("paths"))
        elif op == "checkpoint":
            res = r.ai("checkpoint")
        elif op == "stage_content":
            # emulate `git add -p`: put an explicit version of the file into the index
            path = st["path"]
            o = self.opts(path)
            data = content_of(st["lines"], o.get("final_newline", True), o.get("crlf", False))
            rc, oid, err = r.plain_git("hash-object", "-w", "--stdin", input=data.encode("utf-8"))
            res = r.git("update-index", "--add", "--cacheinfo", f"100644,{oid.strip()},{path}")
            self.index[path] = [list(l) for l in st["lines"]]
        elif op == "commit":
            mode = st.get("add", "paths" if st.get("paths") else "all")
            if mode == "paths":
                r.git("add", "--", *st["paths"])
                for p in st["paths"]:
                    if p in self.ghost:
                        self.index[p] = [list(l) for l in self.ghost[p]]
                    else:
                        self.index.pop(p, None)
            elif mode == "all":
                r.git("add", "-A")
                self.index = {p: [list(l) for l in ls] for p, ls in self.ghost.items()}
            rc, out, err = r.git("commit", "-q", "-m", st.get("msg", "c"), *st.get("extra", []))
            res = (rc, out, err)
            self.commit_ok.append(rc == 0)
            if rc == 0:
                sha = r.head()
                self.commits.append((sha, {p: [list(l) for l in ls] for p, ls in self.index.items()}))
        elif op == "git":
            res = r.git(*st["args"])
        elif op == "plain_git":
            res = r.plain_git(*st["args"])
        elif op == "ai":
            res = r.ai(*st["args"])
        else:
            raise ValueError(op)
        self.log.append({"step": {k: v for k, v in st.items() if k != "lines"}, "rc": res[0] if res else None})
        return res


# ------------------------------------------------------------------ observations
HUNK_RE = re.compile(r"^@@ -(\d+)(?:,(\d+))? \+(\d+)(?:,(\d+))? @@")


def added_lines(repo, a, b=None, paths=None):
    """Independent recomputation of the lines added between two trees (or a tree and the
    working tree when b is None): {path: set(line numbers)} from plain `git diff -U0`, consuming
    hunk bodies by their counts. Paths are read from `--name-only -z`-safe per-file calls."""
    args = ["-c", "core.quotePath=false", "diff", "-U0", "--no-color", "--no-renames", "--no-ext-diff", "--no-textconv",
            "--src-prefix=a/", "--dst-prefix=b/", a] + ([b] if b else [])
    rc, names, _ = repo.plain_git(*(args[:2] + ["diff", "--name-only", "-z", "--no-renames", a] + ([b] if b else [])))
    res = {}
    for p in [n for n in names.split("\0") if n]:
        rc, out, _ = repo.plain_git(*(args + ["--", p]))
        s = set()
        lines = out.split("\n")
        i = 0
        while i < len(lines):
            m = HUNK_RE.match(lines[i])
            if m:
                oc = int(m.group(2)) if m.group(2) is not None else 1
                ns = int(m.group(3))
                nc = int(m.group(4)) if m.group(4) is not None else 1
                s.update(range(ns, ns + nc))
                # skip the body
                i += 1
                o, n = oc, nc
                while i < len(lines) and (o > 0 or n > 0):
                    c = lines[i][:1]
                    if c == "-" and o > 0:
                        o -= 1
                    elif c == "+" and n > 0:
                        n -= 1
                    elif c == "\\":
                        pass
                    else:
                        break
                    i += 1
                continue
            i += 1
        res[p] = s
    return res


def expected_note_lines(commit_files, added):
    """{path: {line: hash}} the property demands for a commit: AI ghost lines among the added ones."""
    exp = {}
    for p, lines in commit_files.items():
        a = added.get(p, set())
        d = {}
        for i, l in enumerate(lines, 1):
            if i in a and l[1] is not None:
                d[i] = hash_of(l[1])
        if d:
            exp[p] = d
    return exp


def observed_note_lines(note):
    obs = {}
    if not note:
        return obs
    for p in note["files"]:
        d = e2e.note_line_authors(note, p)
        if d:
            obs[p] = d
    return obs


# ------------------------------------------------------------------ Sys model correspondence
def norm_text(t):
    return "".join(t.split())


def sys_requests(sc, sessions_index=None, commit_ok=None):
    """Translate a scenario (explicit steps) into one `sys_run` request per file for the Lean Sys
    model (Model/Sys.lean). Line ids are indices of distinct whitespace-normalised texts; sessions
    are numbered. Returns {path: request} and the session numbering."""
    ids = {}
    sess = dict(sessions_index or {})

    def lid(t):
        k = norm_text(t)
        if k not in ids:
            ids[k] = len(ids) + 1
        return ids[k]

    def sid(s):
        if s not in sess:
            sess[s] = len(sess) + 1
        return sess[s]

    files = {}        # path -> {"head": [...], "ops": [...], "started": bool}
    base_done = False
    order = []
    ncommit = 0       # index into commit_ok (which commit steps really produced a commit)
    made = 0          # non-base commits made so far: a file that appears later gets that many (empty) commits first
    for st in sc["steps"]:
        op = st["op"]
        if op == "edit":
            p = st["path"]
            ys = [lid(l[0]) for l in st["lines"]]
            f = files.setdefault(p, {"head": [], "ops": [{"k": "commit"} for _ in range(made)]})
            if p not in order:
                order.append(p)
            if not base_done:
                f["head"] = ys          # base content (committed by the first commit)
            elif st["who"] == "human":
                f["ops"].append({"k": "human", "ys": ys})
            else:
                f["ops"].append({"k": "ai", "s": sid(st["who"]), "ys": ys})
        elif op == "human_checkpoint":
            if base_done:
                for p in (st.get("paths") or list(files)):
                    if p in files:
                        files[p]["ops"].append({"k": "hcp"})
        elif op == "checkpoint":
            if base_done:
                for p in files:
                    files[p]["ops"].append({"k": "hcp"})
        elif op == "ai_checkpoint_again":
            pass
        elif op == "stage_content":
            p = st["path"]
            files.setdefault(p, {"head": [], "ops": [{"k": "commit"} for _ in range(made)]})["ops"].append({"k": "stage", "ys": [lid(l[0]) for l in st["lines"]]})
        elif op == "commit":
            ok = commit_ok[ncommit] if commit_ok is not None and ncommit < len(commit_ok) else True
            ncommit += 1
            if not base_done:
                base_done = True
                continue
            mode = st.get("add", "paths" if st.get("paths") else "all")
            if not ok:
                # `git commit` refused (nothing to commit): staging happened, no commit was made
                for p, f in files.items():
                    if mode == "all" or (mode == "paths" and p in st["paths"]):
                        f["ops"].append({"k": "stageAll"})
                continue
            for p, f in files.items():
                if mode == "all" or (mode == "paths" and p in st["paths"]):
                    f["ops"].append({"k": "stageAll"})
                f["ops"].append({"k": "commit"})
            made += 1
    reqs = {p: {"op": "sys_run", "head": f["head"], "ops": f["ops"]} for p, f in files.items()}
    return reqs, sess


def sys_compare(sc, commits_observed, run_driver, skip_paths=(), commit_ok=None):
    """commits_observed: list (one per non-base commit, in order) of {path: {line: hash}}.
    Returns (n_compared, disagreements)."""
    reqs, sess = sys_requests(sc, commit_ok=commit_ok)
    inv = {v: hash_of(k) for k, v in sess.items()}
    paths = sorted(p for p in reqs if p not in skip_paths)
    if not paths:
        return 0, []
    resps = run_driver([reqs[p] for p in paths])
    bad, n = [], 0
    for p, r in zip(paths, resps):
        notes = r.get("notes")
        if notes is None:
            bad.append({"path": p, "driver": r}); continue
        for k, obs in enumerate(commits_observed):
            pred = {str(l): inv[s] for (l, s) in notes[k]} if k < len(notes) else {}
            got = {str(l): h for l, h in (obs.get(p) or {}).items()}
            n += 1
            if pred != got:
                bad.append({"path": p, "commit_index": k + 1, "predicted": pred, "observed": got, "request": reqs[p]})
    return n, bad
