"""Reusable end-to-end oracle for property C05: every authorship note is well-formed,
self-contained and matches its commit.

    from vlib import wf
    for sig, detail in wf.check_repo_notes(repo):      # after every op of any scenario
        res.oracle_failure("C05:" + sig, detail, "...")

`check_repo_notes(repo)` walks `git ls-tree -r refs/notes/ai` and `git notes --ref=ai list`
(each annotated object exactly one entry across ALL fan-out layouts), parses every note with the
independent Python parser `e2e.parse_note`, and checks it against the annotated commit
(`git ls-tree -r -z <commit>`, `git cat-file --batch`): files exist in the commit's tree, line
numbers within the file's line count, sorted non-overlapping ranges per entry and no line listed
twice per file, hashes ⊆ prompts keys, base_commit_sha = the annotated commit, no `human`
entries. Only plain git is used (never the wrapper). Results about immutable objects (commit
trees, blob line counts, verdicts per (object, note blob)) are cached on the Repo object, so
calling it after every op stays cheap.
"""
import json, re

from . import e2e

SCHEMA = "authorship/3.0.0"
HEX = set("0123456789abcdef")
RANGE_TOKEN = re.compile(r"^(\d+)(?:-(\d+))?$")

NOTE_SIGS = ("note:unparsable", "note:metadata-invalid", "note:file-not-in-commit", "note:line-out-of-range",
             "note:ranges-unsorted-or-overlapping", "note:ranges-overlap-across-entries", "note:hash-without-prompt",
             "note:human-author", "note:base-commit-mismatch", "note:path-contains-newline")


def _cache(repo):
    c = getattr(repo, "_wf_cache", None)
    if c is None:
        c = {"tree": {}, "lines": {}, "type": {}, "verdict": {}, "blob": {}}
        repo._wf_cache = c
    return c


def _raw(repo, *args, input=None):
    """plain git, bytes in / bytes out (file names and blobs are not always UTF-8)"""
    import subprocess
    env = dict(repo.env.env)
    p = subprocess.run([e2e.REAL_GIT] + list(args), cwd=repo.path, env=env, capture_output=True, input=input, timeout=300)
    repo.env.ncmd += 1
    return p.returncode, p.stdout


def is_note_path(path):
    """fan-out split of a hex object name: two-character directories, non-empty last component"""
    comps = path.split("/")
    if not comps[-1] or any(len(c) != 2 for c in comps[:-1]):
        return False
    return all(ch in HEX for c in comps for ch in c)


def notes_tree(repo, ref="ai"):
    """[(path, blob oid)] of refs/notes/<ref>, or [] when the ref does not exist"""
    rc, out = _raw(repo, "ls-tree", "-r", "-z", f"refs/notes/{ref}")
    if rc != 0:
        return []
    rows = []
    for rec in out.split(b"\0"):
        if not rec:
            continue
        meta, _, path = rec.partition(b"\t")
        parts = meta.split()
        rows.append((path.decode("utf-8", "replace"), parts[2].decode(), parts[1].decode()))
    return rows


def _cat_blobs(repo, oids):
    """{oid: bytes} for the given blob oids (one cat-file --batch call), cached"""
    c = _cache(repo)["blob"]
    need = sorted(set(o for o in oids if o not in c))
    if need:
        rc, data = _raw(repo, "cat-file", "--batch", input=("\n".join(need) + "\n").encode())
        pos = 0
        while pos < len(data):
            nl = data.find(b"\n", pos)
            if nl < 0:
                break
            head = data[pos:nl].split()
            if len(head) < 3:
                pos = nl + 1
                if len(head) == 2:
                    c[head[0].decode()] = None
                continue
            size = int(head[2])
            c[head[0].decode()] = data[nl + 1: nl + 1 + size]
            pos = nl + 1 + size + 1
    return {o: c.get(o) for o in oids}


def _types(repo, objs):
    c = _cache(repo)["type"]
    need = sorted(set(o for o in objs if o not in c))
    if need:
        rc, out = _raw(repo, "cat-file", "--batch-check", input=("\n".join(need) + "\n").encode())
        for o, line in zip(need, out.decode("utf-8", "replace").split("\n")):
            parts = line.split()
            # only existing objects are immutable facts; a missing one may appear later
            if len(parts) >= 2 and parts[1] != "missing":
                c[o] = parts[1]
    return {o: c.get(o, "missing") for o in objs}


def commit_tree(repo, commit):
    """{path: blob oid} of the commit's tree (blobs only), cached"""
    c = _cache(repo)["tree"]
    if commit not in c:
        rc, out = _raw(repo, "ls-tree", "-r", "-z", commit)
        t = {}
        if rc == 0:
            for rec in out.split(b"\0"):
                if not rec:
                    continue
                meta, _, path = rec.partition(b"\t")
                parts = meta.split()
                if parts[1] == b"blob":
                    t[path.decode("utf-8", "replace")] = parts[2].decode()
        c[commit] = t
    return c[commit]


def line_count(data):
    """number of lines as git's diff (and str::lines) count them"""
    if data is None:
        return 0
    return data.count(b"\n") + (1 if data and not data.endswith(b"\n") else 0)


def _line_counts(repo, blob_oids):
    c = _cache(repo)["lines"]
    need = [o for o in blob_oids if o not in c]
    if need:
        for o, data in _cat_blobs(repo, need).items():
            c[o] = line_count(data)
            _cache(repo)["blob"].pop(o, None)      # file contents can be large; keep the count only
    return {o: c[o] for o in blob_oids}


def parse_ranges_strict(text):
    """[(start, end)] or None when a token is not `N` / `N-M`"""
    out = []
    for tok in text.split(","):
        m = RANGE_TOKEN.match(tok)
        if not m:
            return None
        s = int(m.group(1))
        e = int(m.group(2)) if m.group(2) is not None else s
        out.append((s, e))
    return out


def check_note_text(text, commit, tree, counts):
    """WF of one note text against its commit. `tree`: {path: blob oid}; `counts`: {blob oid: lines}.
    Returns [(sig, detail)]."""
    fails = []
    note = e2e.parse_note(text)
    if note["errors"]:
        fails.append(("note:unparsable", {"errors": note["errors"][:3]}))
    meta = note["meta"]
    if not isinstance(meta, dict) or meta.get("schema_version") != SCHEMA or not isinstance(meta.get("prompts"), dict) \
            or not isinstance(meta.get("base_commit_sha"), str):
        fails.append(("note:metadata-invalid", {"meta_keys": sorted(meta.keys()) if isinstance(meta, dict) else None}))
        prompts, base = {}, None
    else:
        prompts, base = meta["prompts"], meta["base_commit_sha"]
    if base is not None and base != commit:
        fails.append(("note:base-commit-mismatch", {"base_commit_sha": base}))
    for path in note["files"]:
        if path not in tree:
            fails.append(("note:file-not-in-commit", {"path": path}))
    listed = {}
    for (path, h, rs) in note["entries"]:
        if h == "human":
            fails.append(("note:human-author", {"path": path}))
        if h not in prompts:
            fails.append(("note:hash-without-prompt", {"path": path, "hash": h}))
        ranges = parse_ranges_strict(rs)
        if ranges is None:
            fails.append(("note:unparsable", {"path": path, "ranges": rs}))
            continue
        n = counts.get(tree.get(path)) if path in tree else None
        prev_end = 0
        for (s, e) in ranges:
            if s < 1 or e < s or (n is not None and e > n):
                fails.append(("note:line-out-of-range", {"path": path, "range": [s, e], "file_lines": n}))
            if s <= prev_end:
                fails.append(("note:ranges-unsorted-or-overlapping", {"path": path, "ranges": rs}))
            prev_end = max(prev_end, e)
        seen = listed.setdefault(path, set())
        for (s, e) in ranges:
            if e - s > 200000:
                continue
            for l in range(s, e + 1):
                if l in seen and not any(f[0] == "note:ranges-unsorted-or-overlapping" and f[1].get("path") == path for f in fails):
                    fails.append(("note:ranges-overlap-across-entries", {"path": path, "line": l}))
                    break
                seen.add(l)
    if fails and any("\n" in p for p in tree):
        # the format cannot express a newline inside a path (C17 known finding): one signature
        return [("note:path-contains-newline", {"first": fails[0][0], "detail": fails[0][1]})]
    # one failure per signature is enough
    out, seen_sig = [], set()
    for sig, d in fails:
        if sig not in seen_sig:
            seen_sig.add(sig)
            out.append((sig, d))
    return out


def check_repo_notes(repo, ref="ai", skip_objects=(), stats=None):
    """All C05 checks on the repository as it is now. Returns a list of (sig, detail).
    `skip_objects`: annotated objects whose note content is scenario filler (still counted for
    one-note-per-object). `stats` (dict) receives counters."""
    fails = []
    rows = notes_tree(repo, ref)
    by_obj = {}
    for path, blob, typ in rows:
        if typ != "blob" or not is_note_path(path):
            fails.append(("notes-tree:non-note-path", {"path": path}))
            continue
        by_obj.setdefault(path.replace("/", ""), []).append((path, blob))
    for obj, es in by_obj.items():
        if len(es) > 1:
            fails.append(("notes-tree:duplicate-entry", {"object": obj, "paths": [p for p, _ in es]}))
    # git's own reader must agree: one line per annotated object
    rc, out = _raw(repo, "notes", f"--ref={ref}", "list")
    listed = [l.split() for l in out.decode("utf-8", "replace").split("\n") if l.strip()] if rc == 0 else []
    lobjs = [l[1] for l in listed if len(l) == 2]
    if sorted(lobjs) != sorted(by_obj.keys()):
        fails.append(("notes-tree:list-mismatch", {"only_in_list": sorted(set(lobjs) - set(by_obj))[:3],
                                                   "only_in_tree": sorted(set(by_obj) - set(lobjs))[:3],
                                                   "repeated": sorted(o for o in set(lobjs) if lobjs.count(o) > 1)[:3]}))
    skip = set(skip_objects)
    todo = [(o, es[0][1]) for o, es in by_obj.items() if o not in skip]
    vc = _cache(repo)["verdict"]
    new = [(o, b) for (o, b) in todo if (o, b) not in vc]
    if stats is not None:
        stats["notes"] = stats.get("notes", 0) + len(by_obj)
        stats["checked"] = stats.get("checked", 0) + len(new)
        d = max([p.count("/") for p, _, _ in rows], default=0)
        stats["max_depth"] = max(stats.get("max_depth", 0), d)
    if new:
        types = _types(repo, [o for o, _ in new])
        blobs = _cat_blobs(repo, [b for _, b in new])
        for (o, b) in new:
            if types[o] != "commit":
                # the annotated object is gone (pruned) or is not a commit: nothing to match against
                if stats is not None:
                    stats["not_a_commit"] = stats.get("not_a_commit", 0) + 1
                if types[o] != "missing":
                    vc[(o, b)] = []
                continue
            text = (blobs[b] or b"").decode("utf-8", "replace")
            tree = commit_tree(repo, o)
            note = e2e.parse_note(text)
            need = [tree[p] for p in note["files"] if p in tree]
            counts = _line_counts(repo, need)
            vc[(o, b)] = check_note_text(text, o, tree, counts)
    for (o, b) in todo:
        for sig, d in vc.get((o, b), []):
            dd = dict(d)
            dd["object"] = o
            fails.append((sig, dd))
    return fails


def note_facts(repo, commit, ref="ai"):
    """Inputs of the Lean predicate `WFText` for the note of `commit` (driver op `nt_wf_text`),
    or None when the commit has no note / its metadata is unreadable."""
    text = repo.note_text(commit, ref)
    if text is None:
        return None
    note = e2e.parse_note(text)
    meta = note["meta"]
    if not isinstance(meta, dict) or not isinstance(meta.get("prompts"), dict) or not isinstance(meta.get("base_commit_sha"), str):
        return None
    tree = commit_tree(repo, commit)
    mentioned = [p for p in note["files"] if p in tree]
    counts = _line_counts(repo, [tree[p] for p in mentioned])
    return {"op": "nt_wf_text", "text": text, "base_sha": meta["base_commit_sha"], "prompt_keys": sorted(meta["prompts"].keys()),
            "commit": {"sha": commit, "files": [[p, counts[tree[p]]] for p in mentioned]}}


def python_verdict(repo, commit, ref="ai"):
    """the Python oracle's verdict on the same inputs as `note_facts` (True = well-formed)"""
    text = repo.note_text(commit, ref)
    tree = commit_tree(repo, commit)
    note = e2e.parse_note(text)
    counts = _line_counts(repo, [tree[p] for p in note["files"] if p in tree])
    return not check_note_text(text, commit, tree, counts)
